"""C10 - malformed OpenFlow input is contained to the offending connection.

Fault enumeration on both I/O loops.  The harness plays the scheduler for the REAL generators
`OpenFlow_01_Task.run()` (controller side, over a fake `socket` module bound into pox.openflow.of_01)
and `RecocoIOLoop.run()` (switch side, three RecocoIOWorker + OFConnection + SoftwareSwitch stacks):
every yielded `Select` is answered honestly (readable = a scripted socket that has pending bytes /
EOF, writable = everything in the write list).  Three connections: #1 is hostile, #0 and #2 carry
valid traffic.  The hostile byte stream is a valid instance of every OpenFlow 1.0 message type
(spec-encoded bytes from mc/refs, never produced by libopenflow) with exactly one field corrupted,
placed first / before / between / after valid traffic.  A second group corrupts one field (xid, version,
length, type) of each message of the HANDSHAKE itself after a valid prefix (e.g. HELLO, FEATURES_REPLY,
then a BARRIER_REPLY with a wrong xid) and adds the environment faults that make the controller give a
connection up mid-handshake (no nexus for the datapath, n-th send fails with EPIPE).  Sockets are
faithful where the loops can tell: after shutdown(RD/RDWR) a socket is readable and recv() gives b'',
a closed socket has fileno() -1 and a select set containing one makes select raise ValueError (the
select hub dies: counted as loop death).  A third group follows the corruptions that make a receiver
give a connection up (foreign version, length < 8, unknown type; and the unmodified message) with a
peer that has RESET the connection right behind those bytes: shutdown() raises ENOTCONN, recv() raises
ECONNRESET once the queued bytes are read, send() fails, close() raises - same containment oracle.
A fourth group ("seg") hands the hostile stream out in two or three recv chunks whose boundaries lie INSIDE messages
(every byte offset of the carrier instances, a boundary lattice for the others): the receiver has to judge a header
before the body is there, and the rest arrives in a later recv with sibling traffic in between.  A fifth group ("big")
sends messages whose DECLARED length is 65523 / 65524 / 65535 (and values around the recv sizes 2048 / 8192) with all of
their bytes: every catalogue instance zero-extended to that length, unknown types, undecodable bodies and requests the
switch refuses quoting them (an error reply that quotes L bytes is 12 + L bytes long).  A sixth group ("flood") is a
sustained burst: N minimal units of one kind (unknown type, wrong fixed length, echo / barrier requests, barrier replies;
N = 1 .. 102400 around the powers of two, the recv sizes and the 64 KiB of a pipe) on one, two or three of the
connections at once, all readable at once or one chunk per select round, the peer reading the replies, reading 512
bytes per send, or not reading at all - the switch's loop with the library's REAL wake-up pinger (make_pinger ->
PipePinger) on a modelled pipe (PipeOS: capacity, blocking / non-blocking descriptors, a blocking call that only the
calling thread could satisfy = the loop's thread is stuck for good), benign siblings getting traffic during the burst.

Oracle (DESIGN.md C10): (1) every step into the generator returns within a line budget; (2) the
generator stays alive and keeps selecting on the siblings; (3) each sibling is delivered exactly its
messages, in order, and stays open; (4) on the hostile connection, against the reference framing /
structural validator of mc/refs/ofwire_c10.py: valid messages are delivered unchanged unless the
connection was closed because of an earlier bad unit, malformed units are answered with an error and
skipped or cost the connection, and no delivered message depends on bytes beyond its declared length
(decided by re-running the case with every byte after the unit inverted), and a connection the receiver has given up
is closed where the PEER can tell - at quiescence its socket has been shut down or closed unless bytes are still queued
for it (a close that stays a flag inside the receiver is no close: close-requested-not-performed); (5) nothing is
delivered from a connection after it was closed.
"""
import fnmatch, io, struct, sys, traceback

from mc import env
from mc.engine import pmap, split
from mc.report import Report
from mc.refs import ofwire as W
from mc.refs import ofwire_s2c as S
from mc.refs import ofwire_c10 as R

PID = "C10"
FILES = ("openflow/of_01.py", "datapaths/switch.py", "openflow/libopenflow_01.py", "ioworker/__init__.py")
BUDGET = 200000
MAXIT = 40                       # select rounds allowed to settle one scripted step
MAXIT_BIG = 120                  # ... when the step hands over a message of up to 64 KiB (33 recvs of 2048 bytes)
BUDGET_BIG = 3000000             # line budget per step for those: decoding a 64 KiB list body is ~2.5e5 lines of honest work
HOSTILE = 1
EMB_VALUES = (0, 1, 4, 7, 8, 9, 16, 0xffff)
VERSIONS = (0, 2, 4, 0xff)
TYPE_EDGE = tuple(range(0, 24)) + (0x7f, 0x80, 0xfe, 0xff)

_CUR = [None]
_INSTS = [None]                  # built once in the parent, inherited by the forked workers


class BudgetExceeded (BaseException):
  pass


class MonBudget (object):
  """Deterministic non-termination detector on sys.monitoring LINE events of the files under test.
  (mc.engine.LineBudget raises from a sys.settrace function; CPython then switches tracing OFF, so a
  bare `except:` in pox that swallows the exception - Connection.read has one around the handler
  call - leaves the loop running untraced for ever.  A sys.monitoring callback stays armed and
  raises again on every following line until the exception has left pox.)"""
  TOOL = 3
  _installed = False
  active = False
  count = 0
  budget = 0
  tripped = False

  @classmethod
  def _cb (cls, code, line):
    if not code.co_filename.endswith(FILES): return sys.monitoring.DISABLE
    if not cls.active: return None
    cls.count += 1
    if cls.count > cls.budget:
      cls.tripped = True
      # never raise inside a helper generator (libopenflow's module-level xid generator would be
      # finished for the rest of the process); the I/O loop generators themselves are fair game
      if code.co_flags & 0x20 and code.co_name != "run": return None
      raise BudgetExceeded()

  @classmethod
  def install (cls):
    if cls._installed: return
    mon = sys.monitoring
    mon.use_tool_id(cls.TOOL, "c10-line-budget")
    mon.register_callback(cls.TOOL, mon.events.LINE, cls._cb)
    mon.set_events(cls.TOOL, mon.events.LINE)
    cls._installed = True

  @classmethod
  def arm (cls, budget):
    cls.install()
    cls.count = 0; cls.budget = budget; cls.tripped = False; cls.active = True

  @classmethod
  def disarm (cls):
    cls.active = False
    return cls.tripped


# ---------------------------------------------------------------------------------------------
# small helpers
# ---------------------------------------------------------------------------------------------
def site_of (et, tb):
  """basename:function:ExcType of the innermost pox frame, and the route: the function that
  Connection.read / OFConnection.read had called when the exception came through."""
  frames = traceback.extract_tb(tb)
  inner = None; via = None
  for k, f in enumerate(frames):
    if "/pox/" in f.filename:
      inner = f
    if f.name == "read" and f.filename.endswith(("of_01.py", "switch.py")) and k + 1 < len(frames):
      via = "read>" + frames[k + 1].name
  if inner is None:
    return "nonpox:%s" % et.__name__, via
  base = inner.filename.rsplit("/", 1)[-1]
  if base == "__init__.py": base = inner.filename.rsplit("/", 2)[-2] + "/__init__.py"
  return "%s:%s:%s" % (base, inner.name, et.__name__), via


class RecLog (object):
  """Stands in for a module / instance logger: keeps the exceptions that pox logs and swallows."""
  def __init__ (self, hook=None): self.exc = []; self.hook = hook
  def _n (self, *a, **k): pass
  debug = info = warning = warn = error = critical = log = _n
  def exception (self, *a, **k):
    et, ev, tb = sys.exc_info()
    if et is not None and et is not BudgetExceeded and et is not GeneratorExit:
      so = site_of(et, tb)
      self.exc.append(so)
      if self.hook is not None: self.hook(so, tb)
  def isEnabledFor (self, lvl): return False


class Piece (object):
  """One scripted recv chunk.  A glued chunk keeps its constituent pieces in `parts`."""
  __slots__ = ("data", "valid", "label", "fn", "eof", "parts", "fault", "cont")
  def __init__ (self, data=None, valid=False, label="", fn=None, eof=False, parts=None):
    self.data = data; self.valid = valid; self.label = label; self.fn = fn; self.eof = eof
    self.parts = parts
    self.cont = False          # a later segment of a stream whose messages are listed in the first segment's `parts`
    self.fault = None          # name in PEER_FAULTS: the peer resets the connection right behind this chunk


def glued (*ps):
  return Piece(b"".join(p.data for p in ps), False, "+".join(p.label for p in ps), parts=list(ps))


def segmented (pieces, cuts):
  """The byte stream of `pieces` handed out in len(cuts)+1 recv chunks whose boundaries are the given stream
  offsets - anywhere, inside a message as well as between two.  The first chunk lists the messages in `parts`."""
  data = b"".join(p.data for p in pieces)
  edges = [0] + sorted(set(c for c in cuts if 0 < c < len(data))) + [len(data)]
  out = [Piece(data[a:b], False, "seg@%d" % a) for a, b in zip(edges, edges[1:])]
  out[0].parts = list(pieces); out[0].label = "+".join(p.label for p in pieces) + "/seg"
  for c in out[1:]: c.cont = True
  return out


def xid_of (b):
  return struct.unpack_from("!L", b, 4)[0] if len(b) >= 8 else None


# ---------------------------------------------------------------------------------------------
# worlds: one fresh real system per case
# ---------------------------------------------------------------------------------------------
class World (object):
  side = None
  fos = None                    # the modelled `os` under the loop's wake-up pinger (flood group, switch side)
  def __init__ (self, nconn=3):
    self.nconn = nconn
    self.sel = None
    self.dead = None            # why the generator ended
    self.dead_site = None
    self.tripped = False
    self.livelock = False
    self.maxit = MAXIT
    self.budget = BUDGET
    self.nsend = 0
    self.deliv = [[] for _ in range(nconn)]    # per connection: dict(raw, cls, closed, obs)
    self.pushed = [[] for _ in range(nconn)]   # per connection: Pieces actually handed to the socket (in order)
    self.eof_pushed = [False] * nconn
    self.logs = []
    _CUR[0] = self

  # -- driving ------------------------------------------------------------------------------
  def select_ok (self):
    """What select.select() does with the set the loop waits on: an object whose fileno() is -1 makes
    it raise ValueError - in recoco's SelectHub thread, which ends; no task is ever resumed again."""
    if self.sel is None or self.dead: return not self.dead
    if any(x.fileno() < 0 for x in self.select_set()):
      self.dead = "select"
      self.dead_site = ("select:ValueError:file descriptor cannot be a negative integer", "closed-socket-left-in-select-set")
      return False
    return True

  def step (self, r, w=()):
    if not self.select_ok(): return False
    self.nsend += 1
    MonBudget.arm(self.budget)
    try:
      if self.sel is None: self.sel = next(self.g)
      else: self.sel = self.g.send((list(r), list(w), []))
    except StopIteration:
      self.dead = "returned"
    except BudgetExceeded:
      self.dead = "budget"
    except Exception as e:
      self.dead = "raised"
      self.dead_site = site_of(type(e), e.__traceback__)
    finally:
      if MonBudget.disarm(): self.tripped = True
    return not (self.dead or self.tripped)

  def settle (self):
    for n in range(self.maxit):
      if not self.select_ok(): return False
      r, w = self.ready()
      if not r and not w: return True
      if not self.step(r, w): return False
    self.livelock = True
    return False

  def push (self, i, p):
    s = self.socks[i]
    if p.eof:
      s.eof = True; self.eof_pushed[i] = True
      return
    if p.fn is not None: p.data = p.fn(self, i)
    s.rx.append(bytes(p.data))
    self.pushed[i].append(p)
    if p.fault: s.faults = PEER_FAULTS[p.fault]

  def run_scripts (self, scripts):
    scripts = [list(s) for s in scripts]
    if not self.step([]): return False           # first next(): up to the first Select
    if not self.connect_all(): return False
    while any(scripts):
      for i, sc in enumerate(scripts):
        if sc: self.push(i, sc.pop(0))
      if not self.settle(): return False
    return True

  def record (self, i, msg, cls=""):
    try: raw = msg.pack()
    except Exception: raw = None
    self.deliv[i].append(dict(raw=raw, cls=cls + type(msg).__name__, closed=self.is_closed(i)))

  def errors_sent (self, i):
    out = []
    ms, _ = W.split(self.socks[i].tx)
    for m in ms:
      if m[1] == W.ERROR and len(m) >= 12: out.append((xid_of(m), m[12:], struct.unpack_from("!HH", m, 8)))
    return out

  def logged (self):
    x = []
    for l in self.logs: x.extend(l.exc)
    return x


class CSock (env.ScriptSock):
  """ScriptSock that behaves like a real socket where the I/O loops can tell the difference:
  fileno() is -1 once closed (select.select() raises ValueError for such an object, which ends
  recoco's SelectHub thread - nothing is served any more), and after shutdown(SHUT_RD / SHUT_RDWR) the
  socket is readable and recv() returns b'' (how the unchanged loop notices a connection that
  Connection.disconnect() gave up on and removes it)."""
  rd_shut = False
  faults = ()          # scripted answers of a connection the peer has RESET after its last bytes (see PEER_FAULTS)
  tx_limit = None      # flood group: the peer reads slowly - one send() takes at most this many bytes (0: never writable)
  def fileno (self): return -1 if self.closed else 77
  def shutdown (self, how):
    if "shutdown" in self.faults and not self.closed:
      import socket, errno
      raise socket.error(errno.ENOTCONN, "Transport endpoint is not connected")
    env.ScriptSock.shutdown(self, how)
    if how in (0, 2): self.rd_shut = True
  def recv (self, n, flags=0):
    import socket, errno
    if self.closed:
      raise socket.error(errno.EBADF, "recv on closed socket")
    if self.rd_shut: return b""
    if "recv" in self.faults and not self.rx:           # queued data is still handed out first (Linux)
      raise socket.error(errno.ECONNRESET, "Connection reset by peer")
    return env.ScriptSock.recv(self, n, flags)
  def send (self, data, flags=0):
    if "send" in self.faults and not (self.closed or self.shut):
      import socket, errno
      self.sends.append((len(data), "reset"))
      raise socket.error(errno.ECONNRESET, "Connection reset by peer")
    if self.tx_limit is not None and not (self.closed or self.shut):
      if self.tx_limit == 0:
        import socket, errno
        raise socket.error(errno.EAGAIN, "would block")
      data = data[:self.tx_limit]
    return env.ScriptSock.send(self, data, flags)
  def close (self):
    env.ScriptSock.close(self)                           # the descriptor is gone in any case
    if "close" in self.faults:
      import socket, errno
      self.faults = tuple(f for f in self.faults if f != "close")
      raise socket.error(errno.ECONNRESET, "Connection reset by peer")
  def readable (self):
    return bool(self.rx or self.eof or self.rd_shut or ("recv" in self.faults and not self.closed))


# what the operations on a socket answer once the peer has reset the connection behind its last bytes
PEER_FAULTS = {"reset": ("shutdown", "recv", "send"), "shutdown-enotconn": ("shutdown",), "recv-reset": ("recv",),
               "close-raises": ("close",), "reset+close-raises": ("shutdown", "recv", "send", "close")}


class FakeListener (object):
  def __init__ (self): self.q = []; self.closed = False
  def setsockopt (self, *a): pass
  def bind (self, a): pass
  def listen (self, n): pass
  def setblocking (self, b): pass
  def fileno (self): return 5
  def accept (self):
    s = self.q.pop(0)
    return (s, s.name)
  def close (self): self.closed = True
  def shutdown (self, how): pass


class FakeSocketModule (object):
  """What of_01 needs from `socket`."""
  AF_INET = 2; SOCK_STREAM = 1; SOL_SOCKET = 1; SO_REUSEADDR = 2; SHUT_RDWR = 2; SHUT_RD = 0; SHUT_WR = 1
  import socket as _s
  error = _s.error
  del _s
  def __init__ (self, listener): self.listener = listener
  def socket (self, *a, **k): return self.listener


def _mk_rec (h):
  def rec (con, msg):
    w = _CUR[0]
    if w is not None and w.side == "ctl":
      try: i = w.cons.index(con)
      except ValueError: i = None
      if i is not None: w.record(i, msg)
    return h(con, msg)
  return rec


class CtlWorld (World):
  """Real OpenFlow_01_Task.run() over a fake socket module; fresh nexus / arbiter per case."""
  side = "ctl"
  def __init__ (self):
    World.__init__(self)
    self.st = env.ControllerStack()
    of01 = self.of01 = self.st.of01
    self.core = self.st.core
    self.core.running = True
    self.lst = FakeListener()
    of01.socket = FakeSocketModule(self.lst)
    self.log = self.looplog = RecLog(self._on_logged); of01.log = self.log; self.logs.append(self.log)
    if not getattr(of01, "_c10_wrapped", False):
      hs = of01._default_handlers.handlers
      for k, h in enumerate(hs): hs[k] = _mk_rec(h)
      of01._c10_wrapped = True
    task = object.__new__(of01.OpenFlow_01_Task)          # no core listener, no Task bookkeeping
    task.port = 6633; task.address = "0.0.0.0"; task.started = True
    task.ssl_key = task.ssl_cert = task.ssl_ca_cert = None
    self.task = task
    self.g = task.run()
    self.socks = [CSock(("switch", 100 + i)) for i in range(3)]
    self.cons = []

  def _on_logged (self, so, tb):
    # Connection.read unpacked a message and found no handler for its type (the handshake table is
    # shorter than the type range): the message was accepted, count it as dispatched
    if so[0] == "of_01.py:read:IndexError" and "handlers[" in (traceback.extract_tb(tb)[-1].line or ""):
      while tb.tb_next is not None: tb = tb.tb_next
      loc = tb.tb_frame.f_locals
      con, msg = loc.get("self"), loc.get("msg")
      if con in self.cons and msg is not None: self.record(self.cons.index(con), msg, cls="unhandled:")

  def connect_all (self):
    for s in self.socks:
      self.lst.q.append(s)
      before = set(id(x) for x in self.sel._args[0])
      if not self.step([self.lst]): return False
      new = [x for x in self.sel._args[0] if id(x) not in before and x is not self.lst]
      if len(new) != 1: raise RuntimeError("accept did not add exactly one connection")
      c = new[0]
      c.handlers = [_mk_rec(h) for h in c.handlers]
      self.cons.append(c)
      s.tx = b""                                          # the controller's own HELLO
    return True

  def ready (self):
    r = []
    for x in self.sel._args[0]:
      if x is self.lst:
        if self.lst.q: r.append(x)
      else:
        s = x.sock
        if s.readable(): r.append(x)
    return r, []

  def select_set (self):
    return [x for x in self.sel._args[0] + self.sel._args[2]]

  def apply_env (self, envf):
    if not envf: return
    if envf == "no-nexus":
      # an arbiter without a default nexus; a ConnectionIn listener assigns one to every datapath but the hostile one
      arb, nexus, ofm = self.st.arbiter, self.st.nexus, self.st.ofm
      arb._default = None
      def pick (e):
        if e.dpid != 0x20 + HOSTILE: e.nexus = nexus
      arb.addListener(ofm.ConnectionIn, pick)
    elif envf.startswith("epipe"):
      self.socks[HOSTILE].send_script = ["all"] * int(envf[5:]) + ["epipe"]
    elif envf in PEER_FAULTS: pass                        # takes effect behind the corrupted chunk (see build)
    else: raise ValueError(envf)

  def is_closed (self, i):
    return bool(self.socks[i].closed or (i < len(self.cons) and self.cons[i].disconnected))

  def close_state (self, i):
    """(the receiver has given the connection up, the peer can tell: the socket was shut down or closed, bytes still queued for it)"""
    s = self.socks[i]
    return (bool(i < len(self.cons) and self.cons[i].disconnected), bool(s.closed or s.shut or s.rd_shut), 0)

  def selecting (self):
    """Indices of connections in the current Select's read list (+ 'L' for the listener)."""
    out = []
    for x in self.sel._args[0]:
      if x is self.lst: out.append("L")
      elif x in self.cons: out.append(self.cons.index(x))
    return out

  def finish (self):
    try:
      self.core.running = False
      self.g.close()
    except BaseException:
      pass
    finally:
      self.core.running = True
    _CUR[0] = None


class SwWorld (World):
  """Real RecocoIOLoop.run() with three worker + OFConnection + SoftwareSwitch stacks."""
  side = "sw"
  def __init__ (self, nconn=3, pipe=False):
    World.__init__(self, nconn)
    self.core = env.boot()
    self.core.running = True
    import pox.lib.ioworker as iow
    import pox.datapaths.switch as swm
    self.iow = iow
    self.fos = None
    if pipe:
      # the library's own wake-up pinger (pox.lib.util.make_pinger -> PipePinger) on a modelled pipe
      import pox.lib.util as U
      self.fos = PipeOS(); self._U = U; self._real_os = U.os
      U.os = self.fos
      iow.makePinger = U.make_pinger
    else:
      iow.makePinger = env.FakePinger
    self.iolog = self.looplog = RecLog(); iow.log = self.iolog; self.logs.append(self.iolog)
    self.loop = iow.RecocoIOLoop()
    self.socks = []; self.workers = []; self.conns = []; self.sws = []
    for i in range(nconn):
      s = CSock(("controller", 6633 + i))
      w = iow.RecocoIOWorker(s)
      self.loop.register_worker(w)
      c = swm.OFConnection(w)
      c.log = RecLog(); self.logs.append(c.log)
      sw = swm.SoftwareSwitch(0x30 + i, ports=2)
      sw.set_connection(c)
      orig = c.on_message_received
      c.on_message_received = self._mk(i, orig)
      self.socks.append(s); self.workers.append(w); self.conns.append(c); self.sws.append(sw)
    self.g = self.loop.run()

  def _mk (self, i, orig):
    def rx (connection, msg):
      self.record(i, msg)
      return orig(connection, msg)
    return rx

  def connect_all (self):
    return True

  def ready (self):
    r = []
    for x in self.sel._args[0]:
      if x is self.loop.pinger:
        if (self.fos.readable(x.fileno()) if self.fos is not None else x.pings): r.append(x)
      else:
        s = x.socket
        if s.readable(): r.append(x)
    return r, [x for x in self.sel._args[1] if getattr(x.socket, "tx_limit", None) != 0]

  def select_set (self):
    return [x for x in self.sel._args[0] + self.sel._args[1] + self.sel._args[2] if x is not self.loop.pinger]

  def apply_env (self, envf):
    if not envf: return
    if envf.startswith("epipe"):
      self.socks[HOSTILE].send_script = ["all"] * int(envf[5:]) + ["epipe"]
    elif envf in PEER_FAULTS: pass                        # takes effect behind the corrupted chunk (see build)
    else: raise ValueError(envf)

  def is_closed (self, i):
    w = self.workers[i]
    return bool(w.closed or w._shutdown_send or self.socks[i].closed)

  def close_state (self, i):
    """(the receiver has given the connection up, the peer can tell: the socket was shut down or closed, bytes still queued for it)"""
    w = self.workers[i]; s = self.socks[i]
    return (bool(w.closed or w._shutdown_send), bool(w.closed or s.closed or s.shut), len(w.send_buf))

  def selecting (self):
    out = []
    for x in self.sel._args[0]:
      if x in self.workers: out.append(self.workers.index(x))
    return sorted(out)

  def finish (self):
    try: self.g.close()
    except BaseException: pass
    if self.fos is not None: self._U.os = self._real_os
    _CUR[0] = None


# ---------------------------------------------------------------------------------------------
# scripts
# ---------------------------------------------------------------------------------------------
def _barrier_reply_fn (world, i):
  ms, _ = W.split(world.socks[i].tx)
  x = 0
  for m in ms:
    if m[1] == W.BARRIER_REQUEST: x = xid_of(m)
  return S.barrier_reply(x)


def handshake (side, i):
  dpid = 0x20 + i
  if side == "ctl":
    ports = [W.phy_port(1, R.MAC1, b"p1"), W.phy_port(2, R.MAC2, b"p2")]
    return [Piece(W.hello(0x50000000 + i), True, "hello"),
            Piece(S.features_reply(0x50000010 + i, dpid, ports, capabilities=0xc7), True, "features-reply"),
            Piece(None, True, "barrier-reply", fn=_barrier_reply_fn)]
  return [Piece(W.hello(0x50000000 + i), True, "hello"),
          Piece(W.features_request(0x50000010 + i), True, "features-request"),
          Piece(W.set_config(0x50000020 + i, 0, 128), True, "set-config"),
          Piece(W.barrier_request(0x50000030 + i), True, "barrier-request")]


def valid_msg (side, i, n):
  """n-th valid message of connection i (distinct xid, cycling through message kinds)."""
  x = 0x51000000 + (i << 16) + n
  if side == "ctl":
    k = n % 4
    if k == 0: return Piece(W.echo_request(x, b"keepalive%d" % n), True, "echo-request")
    if k == 1: return Piece(S.packet_in(x, R.FRAME + bytes([n]), in_port=1 + (n & 1)), True, "packet-in")
    if k == 2: return Piece(S.port_status(x, W.OFPPR_MODIFY, W.phy_port(2, R.MAC2, b"p2", state=n & 1)), True, "port-status")
    return Piece(S.barrier_reply(x), True, "barrier-reply")
  k = n % 4
  if k == 0: return Piece(W.echo_request(x, b"keepalive%d" % n), True, "echo-request")
  if k == 1: return Piece(W.set_config(x, 0, 64 + n), True, "set-config")
  if k == 2: return Piece(W.barrier_request(x), True, "barrier-request")
  return Piece(W.get_config_request(x), True, "get-config-request")


def corrupt (inst, field, val):
  return corrupt_bytes(inst.data, inst.emb, field, val)


def corrupt_bytes (data, emb, field, val):
  b = bytearray(data)
  if field == "hdr.length": struct.pack_into("!H", b, 2, val)
  elif field == "xid": struct.pack_into("!L", b, 4, struct.unpack_from("!L", b, 4)[0] ^ val)
  elif field == "type": b[1] = val
  elif field == "version": b[0] = val
  elif field == "ver+len":                      # double corruption: bad version AND overstated length
    b[0] = val >> 16; struct.pack_into("!H", b, 2, val & 0xffff)
  elif field.startswith("emb:"): struct.pack_into("!H", b, dict(emb)[field[4:]], val)
  elif field == "trunc": b = b[:val]
  elif field == "none": pass
  else: raise ValueError(field)
  return bytes(b)


def build (case, insts):
  """Scripts (lists of recv chunks) for the three connections."""
  side = case["side"]; inst = insts[case["inst"]]
  V1 = valid_msg(side, HOSTILE, 0); V2 = valid_msg(side, HOSTILE, 1)
  hs = handshake(side, HOSTILE)
  pos = case["pos"]; glue = bool(case.get("glue")); cuts = case.get("cuts")
  if pos.startswith("hs"):
    # the corruption hits the k-th message of the handshake itself (valid prefix, handshake state)
    k = int(pos[2:]); p = hs[k]; f, val = case["field"], case["val"]
    if p.fn is not None:
      hs[k] = Piece(None, f == "none", "M:" + p.label, fn=(lambda f0: lambda w, i: corrupt_bytes(f0(w, i), (), f, val))(p.fn))
    else:
      hs[k] = Piece(corrupt_bytes(p.data, (), f, val), f == "none", "M:" + p.label)
    chunks = hs + [V1, V2]
    M = None
  else:
    m = corrupt(inst, case["field"], case["val"])
    ok = case["field"] == "none" and side[0] in inst.to
    if ok and getattr(inst, "bigbase", None): ok = R.classify(m)[0] == "ok"      # zero padding makes some types malformed
    M = Piece(m, ok, "M")
  if M is None:
    pass
  elif case.get("eof"):
    # the peer sends the (truncated) message and closes: nothing follows it
    if pos == "first": chunks = [M, Piece(eof=True)]
    elif pos == "after": chunks = hs + [V1, V2, M, Piece(eof=True)]
    else: raise ValueError(pos)
  elif pos == "first":
    if cuts: chunks = segmented([M, hs[0]], cuts) + hs[1:] + [glued(V1, V2)]
    else: chunks = ([glued(M, hs[0])] + hs[1:] + [glued(V1, V2)]) if glue else [M] + hs + [V1, V2]
  else:
    order = dict(before=[M, V1, V2], between=[V1, M, V2], after=[V1, V2, M])[pos]
    if cuts:
      # recv boundaries at the given offsets relative to the first byte of M (negative: inside the message before it)
      m0 = sum(len(p.data) for p in order[:order.index(M)])
      chunks = hs + segmented(order, [m0 + c for c in cuts])
    else:
      chunks = hs + ([glued(*order)] if glue else order)
  if case.get("env") in PEER_FAULTS:
    # the peer resets the connection right behind the chunk with the corrupted message: nothing follows
    k = next(k for k, c in enumerate(chunks) if c.label.startswith("M") or (c.parts and any(p.label.startswith("M") for p in c.parts)))
    chunks = chunks[:k+1]
    chunks[k].fault = case["env"]
  n = len(chunks) + 2
  scripts = []
  for i in range(3):
    if i == HOSTILE:
      scripts.append(chunks)
    else:
      sc = handshake(side, i)
      k = 0
      while len(sc) < n:
        sc.append(valid_msg(side, i, k)); k += 1
      scripts.append(sc)
  return scripts


# ---------------------------------------------------------------------------------------------
# one case: execute + judge
# ---------------------------------------------------------------------------------------------
def field_class (case, inst):
  fc = _field_class(case, inst)
  if case.get("env") in PEER_FAULTS: fc += "+peer-" + case["env"]
  if case.get("cuts"): fc += "+split"
  return fc


def _field_class (case, inst):
  f, v = case["field"], case["val"]
  n = len(inst.data)
  if f == "hdr.length":
    return "hdr.length<8" if v < 8 else ("hdr.length=short" if v < n else "hdr.length=long")
  if f == "type": return "type"
  if f == "xid": return "xid"
  if f == "none" and case.get("env") and case["env"] not in PEER_FAULTS: return "env=" + case["env"].rstrip("0123456789")
  if f == "version": return "version"
  if f == "ver+len": return "version+hdr.length=long"
  if f.startswith("emb:"):
    lab = "".join(ch for ch in f[4:] if not ch.isdigit())
    return "emb:%s=%s" % (lab, "0" if v == 0 else ("<8" if v < 8 else ("0xffff" if v == 0xffff else ">=8")))
  if f == "trunc": return "trunc+eof" if case.get("eof") else "trunc+valid"
  return f


def msg_class (case, inst):
  if case["pos"].startswith("hs"):
    return "handshake." + inst.name
  big = getattr(inst, "bigbase", None)
  if case["field"] == "type":
    v = case["val"]
    return ("big:" if big else "") + "as:" + (W.TYPE_NAMES[v] if v < len(W.TYPE_NAMES) else "unknown-type")
  if big:
    # declared length class: up to 65523 an error reply quoting the whole message still fits a 16 bit length
    return "big:%s:%s" % (big, "len<=65523" if inst.L <= 65523 else "len>65523")
  return inst.name


def execute (case, insts, alt_from=None):
  """Run one case on a fresh world.  alt_from: hostile stream offset after which every byte is
  inverted (differential run for the non-interference clause)."""
  scripts = build(case, insts)
  if alt_from is not None:
    off = 0
    for p in scripts[HOSTILE]:
      if p.eof: continue
      if p.fn is not None:
        if off >= alt_from:
          f0 = p.fn
          p.fn = (lambda f0: lambda w, i: bytes(b ^ 0xff for b in f0(w, i)))(f0)
        off += 8
        continue
      d = bytearray(p.data)
      for k in range(len(d)):
        if off + k >= alt_from: d[k] ^= 0xff
      p.data = bytes(d); off += len(d)
  w = CtlWorld() if case["side"] == "ctl" else SwWorld()
  if getattr(insts[case["inst"]], "bigbase", None): w.maxit = MAXIT_BIG; w.budget = BUDGET_BIG
  old = sys.stderr; sys.stderr = io.StringIO()
  try:
    w.apply_env(case.get("env"))
    w.completed = w.run_scripts(scripts)
    if w.completed:
      w.completed = w.step([])              # one idle wake-up: the loop must yield a Select again
    w.final_sel = w.selecting() if w.sel is not None and not w.dead else []
    w.closed = [w.is_closed(i) for i in range(3)]
    w.close_st = [w.close_state(i) for i in range(3)]
    w.peer_gone = ["shutdown" in w.socks[i].faults for i in range(3)]
    w.errs = [w.errors_sent(i) for i in range(3)]
  finally:
    w.finish()
    sys.stderr = old
  w.scripts = scripts
  return w


def tname (t):
  return W.TYPE_NAMES[t] if t < len(W.TYPE_NAMES) else "unknown-type"


def close_verdict (v, side, w, i):
  """'... or that one connection is closed': a receiver that has decided to give a connection up (and therefore answers
  and delivers nothing from it any more) has to carry the close out where the peer can tell - the socket shut down or
  closed - once nothing is left to flush.  A close that stays a flag inside the receiver leaves a connection that is open
  for the peer, selected on and read from for ever, and silent: the bytes were neither answered, nor skipped, nor was the
  connection closed.  (No verdict when the scripted peer has already reset the connection.)"""
  given_up, visible, queued = w.close_st[i]
  if given_up and not visible and not queued and not w.peer_gone[i]:
    v("4", "close-requested-not-performed", [],
      "the %s gave connection %d up (%s) but at quiescence its socket was neither shut down nor closed and nothing is queued "
      "for it: for the peer the connection is open, the loop keeps reading from it into a buffer it no longer works off, and "
      "nothing it sends is answered any more"
      % ("switch" if side == "sw" else "controller", i,
         "OFConnection.close() -> io_worker.shutdown(): only the _shutdown_send flag is set" if side == "sw" else "Connection.disconnected is set"))


def judge (case, insts, w, differential=True):
  """Returns (list of (key, text), summary for the outcome digest).

  Keys: C10:<clause>:<side>:<symptom>:<subject>.  The subject of a verdict about one framed unit of the
  hostile stream is that unit's declared type plus the rule of the reference validator it breaks
  (independent of which corruption produced it); loop deaths are keyed by the route the exception took
  out of read() (the containment hole), other verdicts by message class + corrupted field class of
  the case."""
  side = case["side"]; inst = insts[case["inst"]]
  mc, fc = msg_class(case, inst), field_class(case, inst)
  bad = []
  def v (clause, symptom, subject, text):
    key = ":".join([PID, clause, side, symptom] + [x for x in subject if x])
    if not any(k == key for k, _ in bad): bad.append((key, text))
  h = HOSTILE
  # reference view of the hostile byte stream
  stream = b""; valid_at = {}
  for chunk in w.pushed[h]:
    if chunk.parts:
      o = len(stream)
      for p in chunk.parts:
        if p.valid: valid_at[o] = p.data
        o += len(p.data)
    elif chunk.valid and not chunk.cont: valid_at[len(stream)] = chunk.data
    stream += chunk.data
  units, tail, why = R.frame(stream)
  def is_valid (k): return valid_at.get(units[k][0]) == units[k][1]
  lname = "OpenFlow_01_Task.run" if side == "ctl" else "RecocoIOLoop.run"
  # (1) termination
  if w.tripped or w.livelock:
    # a header with length < 8 is the same hole in the read loop whichever unpacker lets it through
    subj = ["hdr.length<8"] if why == "unframeable" else [mc, fc]
    culprit = " (looping on a %s header with length %d)" % (tname(tail[1]), struct.unpack_from("!H", tail, 2)[0]) if why == "unframeable" else ""
    if w.tripped:
      v("1", "nonterminating", subj, "a step into %s exceeded %d lines%s" % (lname, w.budget, culprit))
    else:
      v("1", "livelock", subj, "%s needed more than %d select rounds to consume one scripted step" % (lname, MAXIT))
    return bad, ("tripped" if w.tripped else "livelock",)
  # (2) loop alive
  if w.dead:
    site, via = (w.dead_site or (None, None))
    if site is None and w.looplog.exc:
      site, via = w.looplog.exc[-1]
    if w.dead == "select": subj = [via]
    elif via == "read>unpack_new": subj = ["via=" + via]
    elif via: subj = ["via=" + via, site]
    elif site: subj = ["at=" + site]          # the frame the exception came from names the hole, whatever input got there
    else: subj = [mc, fc]
    if w.dead == "select":
      v("2", "loop-died", subj, "%s left a closed socket (fileno() == -1) in the set it selects on: select() raises ValueError, "
        "the select hub dies and no connection is served any more" % lname)
    else:
      v("2", "loop-died", subj, "the generator of %s ended (%s)%s: no connection is served any more"
        % (lname, w.dead, " after %s" % site if site else ""))
    return bad, ("dead", site)
  for i in (0, 2):
    if i not in w.final_sel:
      v("2", "sibling-dropped-from-select", [mc, fc], "sibling connection %d is no longer in the loop's read list" % i)
  if side == "ctl" and "L" not in w.final_sel:
    v("2", "listener-dropped-from-select", [mc, fc], "the listening socket is no longer selected on")
  # (3) siblings
  for i in (0, 2):
    exp = [p.data for p in w.pushed[i]]
    got = [d["raw"] for d in w.deliv[i]]
    if w.closed[i]:
      v("3", "sibling-closed", [mc, fc], "sibling connection %d was closed" % i)
    elif got != exp:
      k = next((k for k in range(min(len(got), len(exp))) if got[k] != exp[k]), min(len(got), len(exp)))
      v("3", "sibling-messages-differ", [mc, fc], "sibling %d: sent %d messages, delivered %d; first difference at #%d" % (i, len(exp), len(got), k))
    if any(d["closed"] for d in w.deliv[i]):
      v("5", "delivered-after-close", [mc, fc], "sibling %d got a message delivered after it was closed" % i)
    # served, not only read: every echo request of a sibling is answered (same xid, same body)
    replies = set((xid_of(m), m[8:]) for m in W.split(w.socks[i].tx)[0] if m[1] == W.ECHO_REPLY)
    for p in w.pushed[i]:
      if p.label == "echo-request" and (xid_of(p.data), p.data[8:]) not in replies and not w.closed[i]:
        v("3", "sibling-echo-unanswered", [mc, fc], "sibling %d: echo request xid %#x was not answered" % (i, xid_of(p.data)))
  # (4)/(5) hostile connection
  D = w.deliv[h]; E = w.errs[h]; closed = w.closed[h]
  close_verdict(v, side, w, h)
  acted = {}                     # unit index -> set of 'd' (delivered) 'x' (inexact) 'e' (error)
  inexact = []
  j = 0
  for di, d in enumerate(D):
    raw = d["raw"]
    k = None
    if raw is not None:
      k = next((k for k in range(j, len(units)) if raw == units[k][1]), None)
      if k is None:
        k = next((k for k in range(j, len(units)) if is_valid(k) and raw[1] == units[k][1][1] and raw[4:8] == units[k][1][4:8]), None)
    # a HELLO of a foreign version is let through whatever its length (unconstrained, see assumptions); pox re-packs it
    # without its body, which is no evidence about where those 8 bytes came from
    free_hello = (k is None and raw is not None and len(raw) >= 8 and j < len(units) and R.classify(units[j][1])[1] == "hello-version"
                  and raw[:2] == units[j][1][:2] and raw[4:8] == units[j][1][4:8])
    if k is None and raw is not None and len(raw) >= 8 and not free_hello:
      # a delivered message that is no unit of the reference framing but sits INSIDE one: bytes within a
      # message's declared length were decoded as a message of their own
      host = next((u for (o, u) in units if raw in u and not u.startswith(raw)), None)
      if host is not None:
        v("4", "delivered-from-inside-message", [tname(host[1])],
          "a %s (xid %#x) was delivered that lies inside the declared length of a %s message (type %d, length %d)"
          % (d["cls"], xid_of(raw), tname(host[1]), host[1], len(host)))
    if k is not None:
      acted.setdefault(k, set()).add("d"); j = k + 1
    elif j < len(units):
      acted.setdefault(j, set()).add("x"); inexact.append((di, j)); j += 1
    else:
      inexact.append((di, None))
  for (x, data, tc) in E:
    for k in range(len(units)):
      u = units[k][1]
      if "e" in acted.get(k, ()): continue
      if xid_of(u) == x or (len(data) >= 8 and u.startswith(data[:8])):
        acted.setdefault(k, set()).add("e"); break
  # a peer that has reset the connection makes every send fail: an error reply cannot be observed, and the
  # controller marks the connection disconnected on the failed send while it still works off messages that had
  # arrived before - neither is a reaction to malformed input, the statement is silent there
  unsendable = "send" in PEER_FAULTS.get(case.get("env") or "", ())
  if any(d["closed"] for d in D) and not unsendable:
    v("5", "delivered-after-close", [mc, fc], "a message was delivered from the hostile connection after it had been closed")
  last = max(acted) if acted else -1
  horizon = len(units) if not closed else last + 1      # later units are excused by the close
  suspects = [k for k in range(len(units)) if not is_valid(k)]
  for k in range(min(horizon, len(units))):
    off_k, u = units[k]
    a = acted.get(k, set())
    if is_valid(k):
      if "d" not in a:
        v("4", "valid-not-delivered", [mc, fc], "valid message #%d (%s, xid %#x) on the hostile connection was not delivered although the connection %s"
          % (k, tname(u[1]), xid_of(u), "stayed open" if not closed else "was closed only later"))
      continue
    wf, reason = R.classify(u)
    if wf == "bad":
      if "d" in a or "x" in a:
        cl = ",".join(sorted(set(D[di]["cls"] for di, jj in inexact if jj == k))) or "a message"
        v("4", "malformed-delivered", [tname(u[1]), reason], "malformed unit #%d (declared type %d, length %d: %s) was delivered as %s" % (k, u[1], len(u), reason, cl))
      elif "e" not in a and not unsendable:
        v("4", "malformed-ignored", [tname(u[1]), reason], "malformed unit #%d (declared type %d, length %d: %s) was neither answered with an error nor did it close the connection" % (k, u[1], len(u), reason))
  beyond = [D[di]["cls"] for (di, jj) in inexact if jj is None]
  if closed:
    cause = [k for k in suspects if k <= last + 1]
    bad_tail = why == "incomplete" and len(tail) >= 1 and tail[0] != W.VERSION      # a header we cannot accept
    if not cause and why != "unframeable" and not w.eof_pushed[h] and not bad_tail and not case.get("env"):
      v("4", "closed-without-cause", [mc, fc], "the hostile connection was closed while only valid messages had been received")
  else:
    if (why == "incomplete" and len(tail) >= 8 and tail[0] != W.VERSION and tail[1] != W.HELLO
        and not any(xid_of(tail) == x or (len(data) >= 8 and tail.startswith(data[:8])) for (x, data, tc) in E)):
      v("4", "malformed-ignored", [tname(tail[1]), "bad-version-awaiting-declared-length"],
        "a header with version %#x (declared length %d, %d bytes received) was neither answered with an error nor did it "
        "close the connection: the receiver waits for the rest of a message it cannot accept"
        % (tail[0], struct.unpack_from("!H", tail, 2)[0], len(tail)))
    if why == "unframeable":
      v("4", "unframeable-accepted", [], "a %s header with length %d < 8 was received and the connection stayed open%s"
        % (tname(tail[1]), struct.unpack_from("!H", tail, 2)[0], " (and %d message(s) were delivered from the bytes behind it)" % len(beyond) if beyond else ""))
    if w.eof_pushed[h]:
      v("4", "eof-not-closed", [mc, fc], "the peer closed the connection and it is still open")
  if beyond and why != "unframeable":
    v("4", "delivered-from-incomplete-unit", [beyond[0]], "a %s was delivered although fewer bytes than its declared length had arrived" % beyond[0])
  if beyond and why == "unframeable" and closed:
    v("4", "unframeable-accepted", [], "%d message(s) were delivered from bytes behind a %s header with length %d < 8"
      % (len(beyond), tname(tail[1]), struct.unpack_from("!H", tail, 2)[0]))
  # non-interference: a delivered object that is not a slice of its unit must not depend on later bytes
  if differential:
    for (di, jj) in inexact:
      if jj is None: continue
      raw = D[di]["raw"]; off_k, u = units[jj]
      if raw is not None and raw in u: continue
      end = off_k + len(u)
      if end >= len(stream): continue
      w2 = execute(case, insts, alt_from=end)
      D2 = w2.deliv[h]
      o1 = (D[di]["cls"], raw)
      o2 = (D2[di]["cls"], D2[di]["raw"]) if di < len(D2) else None
      if o1 != o2:
        v("4", "built-from-two-messages", [D[di]["cls"]], "the %s delivered for unit #%d (declared length %d) changes when only the bytes AFTER that unit change: decoding read beyond the declared length"
          % (D[di]["cls"], jj, len(u)))
      break
  summ = (tuple((d["cls"], d["closed"]) for d in D), len(E), closed, why, len(units),
          tuple(sorted(set(w.logged()), key=repr)), tuple(len(w.deliv[i]) for i in (0, 2)))
  return bad, summ


def _execute_and_judge (case, insts):
  w = execute(case, insts)
  bad, summ = judge(case, insts, w)
  return w, bad, summ


def explains (known_key, key):
  """Known keys may use shell wildcards, e.g. C10:4:*:malformed-delivered:VENDOR:*"""
  return known_key == key or fnmatch.fnmatchcase(key, known_key)


# ---------------------------------------------------------------------------------------------
# enumeration
# ---------------------------------------------------------------------------------------------
def cases_for (side, ii, inst, group, quick):
  n = len(inst.data)
  P4 = ("first", "before", "between", "after")
  out = []
  def add (field, val, pos, glue, eof=False):
    out.append(dict(side=side, inst=ii, name=inst.name, field=field, val=val, pos=pos, glue=glue, eof=eof))
  if group == "len":
    if inst.big and quick:
      vals = [x for x in list(range(0, 25)) + list(range(n - 16, n + 9)) if x != n]
    else:
      vals = [x for x in range(0, n + 9) if x != n]
    for val in vals:
      for pos in P4:
        for glue in (True, False):
          if quick and not glue and pos in ("before",): continue
          add("hdr.length", val, pos, glue)
  elif group == "type":
    for val in range(256):
      if val == inst.typ: continue
      for pos in P4:
        for glue in (True, False):
          if quick and not (val in TYPE_EDGE and glue) and not (pos == "between" and glue): continue
          add("type", val, pos, glue)
  elif group == "misc":
    for pos in P4:
      for glue in (True, False):
        add("none", 0, pos, glue)
        for val in VERSIONS: add("version", val, pos, glue)
        # a foreign protocol's bytes (e.g. "GET / HTTP"): wrong version byte and a "length" far beyond what arrives
        for ver in (0, 0x47):
          for ln in (n + 1, n + 8, 0x5420, 0xffff):
            add("ver+len", (ver << 16) | ln, pos, glue)
        for (label, off) in inst.emb:
          cur = struct.unpack_from("!H", inst.data, off)[0]
          for val in EMB_VALUES:
            if val != cur: add("emb:" + label, val, pos, glue)
  elif group == "trunc":
    if inst.big and quick:
      ks = [k for k in list(range(1, 25)) + list(range(n - 16, n))]
    else:
      ks = range(1, n)
    for k in ks:
      add("trunc", k, "after", False, eof=True)
      if not quick or k <= 12: add("trunc", k, "first", False, eof=True)
      for pos in ("before", "between"):
        for glue in (True, False):
          if quick and not glue and pos == "before": continue
          add("trunc", k, pos, glue)
  return out


def reset_cases (side, insts, quick):
  """The corruptions that make a receiver give the connection up (foreign version, length < 8, unknown
  type), each followed by a peer that has reset the connection behind those bytes: shutdown() raises
  ENOTCONN, recv() raises ECONNRESET once the queued bytes are read, send() fails, close() raises."""
  out = []
  envs = ("reset", "reset+close-raises") if quick else tuple(sorted(PEER_FAULTS))
  for ii, inst in enumerate(insts):
    if inst.big or (inst.groups is not None and "reset" not in inst.groups): continue
    vals = [("none", 0)] + [("version", v) for v in VERSIONS] + [("hdr.length", v) for v in range(8)] + [("type", 22), ("type", 0xff)]
    for (f, v) in vals:
      for pos in ("first", "before", "between", "after"):
        for glue in (True, False):
          if quick and not glue and pos != "between": continue
          for e in envs:
            out.append(dict(side=side, inst=ii, name=inst.name, field=f, val=v, pos=pos, glue=glue, eof=False, env=e))
  return out


# -- segmentation: recv boundaries inside the hostile stream ---------------------------------------
SEG_CARRIERS = ("ECHO_REQUEST.carrier", "VENDOR.carrier", "ECHO_REQUEST.dense")
SEG_TYPES = (2, 14, 18)          # re-typed as: ECHO_REQUEST (any body), FLOW_MOD (lists), BARRIER_REQUEST (fixed length)

def seg_corruptions (inst, core_only=False):
  """(field, value) pairs: the header corruptions a receiver has to judge BEFORE the whole message is buffered, the
  unmodified message, and (not core_only) re-typing to known types and the embedded length fields."""
  n = len(inst.data)
  out = [("none", 0), ("type", 22), ("type", 0xff), ("version", 0), ("version", 2), ("hdr.length", 7),
         ("hdr.length", n + 8), ("ver+len", (0x47 << 16) | 0x5420)]
  if not core_only:
    out += [("type", t) for t in SEG_TYPES if t != inst.typ]
    out += [("hdr.length", v) for v in (8, n - 1, n + 1) if v >= 8 and v != n]
    for (label, off) in inst.emb:
      cur = struct.unpack_from("!H", inst.data, off)[0]
      out += [("emb:" + label, v) for v in (0, 0xffff) if v != cur]
  return out


def declared (inst, field, val):
  n = len(inst.data)
  if field == "hdr.length": return val
  if field == "ver+len": return val & 0xffff
  return n


def cut_lattice (n, d, quick):
  """Boundary offsets relative to the first byte of M (n bytes sent, d declared): inside the message before it, every
  header field boundary, header end +-1, inside the body, around the declared end, around the real end, and in the
  header / body of the message that follows."""
  if quick: c = {-1, 1, 4, 7, 8, 9, n // 2, d - 1, n - 1, n + 1, n + 8}
  else: c = {-9, -1, 1, 2, 3, 4, 5, 6, 7, 8, 9, 12, 16, n // 2, d - 1, d, d + 1, n - 1, n, n + 1, n + 2, n + 4, n + 7, n + 8, n + 9, n + 12}
  return sorted(c)


def seg_cases (side, insts, quick):
  """The hostile stream handed out in two or three recv chunks whose boundaries lie INSIDE messages: the rest of a
  message that the receiver has already judged by its header arrives in a later recv (sibling traffic in between)."""
  out = []; seen = set()
  V = [len(valid_msg(side, HOSTILE, k).data) for k in (0, 1)]
  hello = 8
  def room (pos, n):
    # (lowest, highest) admissible cut relative to M's first byte: strictly inside the segmented region
    if pos == "first": return 1, n + hello - 1
    if pos == "before": return 1, n + V[0] + V[1] - 1
    if pos == "between": return 1 - V[0], n + V[1] - 1
    return 1 - V[0] - V[1], n - 1
  def add (ii, inst, field, val, pos, cuts):
    lo, hi = room(pos, len(inst.data))
    cuts = tuple(sorted(set(c for c in cuts if lo <= c <= hi)))
    if not cuts: return
    k = (ii, field, val, pos, cuts)
    if k in seen: return
    seen.add(k)
    out.append(dict(side=side, inst=ii, name=inst.name, field=field, val=val, pos=pos, glue=True, eof=False, cuts=list(cuts)))
  positions = ("between",) if quick else ("first", "before", "between", "after")
  for ii, inst in enumerate(insts):
    if inst.groups is not None and "seg" not in inst.groups: continue
    n = len(inst.data)
    full = inst.name in SEG_CARRIERS or (not quick and not inst.big)
    for pos in positions:
      for (f, v) in seg_corruptions(inst):
        d = declared(inst, f, v)
        core = (f, v) in seg_corruptions(inst, core_only=True)
        lat = cut_lattice(n, d, quick)
        # two chunks
        sweep = range(-9, n + 13) if (full and core) else lat
        for c in sweep: add(ii, inst, f, v, pos, (c,))
        # three chunks: header | part of the body | rest, and boundaries in two different messages
        if core and (inst.name in SEG_CARRIERS or f in ("none", "type") or not quick):
          l3 = ((-1, 2, 4, 7, 8, 9, n // 2, d - 1, n - 1, n + 1, n + 4, n + 8) if not quick else
                (4, 8, 9, n // 2, n - 1, n + 4) if inst.name in SEG_CARRIERS else (4, 9, n - 1, n + 4))
          for a in l3:
            for b in l3:
              if a < b: add(ii, inst, f, v, pos, (a, b))
  return out


def cut_class (case, inst):
  """Where the recv boundaries lie, for the outcome digest."""
  n = len(inst.data); out = []
  for c in case.get("cuts") or ():
    out.append("prev" if c < 0 else "start" if c == 0 else "hdr" if c < 8 else "hdr-end" if c == 8 else
               "body" if c < n else "end" if c == n else "next-hdr" if c < n + 8 else "next")
  return tuple(out)


# -- declared lengths near 64 KiB (and around the recv sizes) whose bytes all arrive ---------------------
def big_cases (side, insts, quick):
  out = []; seen = set()
  def add (ii, inst, field, val, pos, glue):
    k = (ii, field, val, pos, glue)
    if k in seen: return
    seen.add(k)
    out.append(dict(side=side, inst=ii, name=inst.name, field=field, val=val, pos=pos, glue=glue, eof=False))
  positions = ("between",) if quick else ("first", "before", "between", "after")
  for ii, inst in enumerate(insts):
    base = getattr(inst, "bigbase", None)
    if base is None: continue
    edge = inst.L in R.BIG_EDGE
    core = base in R.BIG_CORE or base.count(".") and base.split(".")[1] in ("unknown", "unknown-buffer")
    if quick and not (edge or core): continue
    for pos in positions:
      for glue in (True, False):
        if quick and not glue and not (core and edge): continue
        add(ii, inst, "none", 0, pos, glue)
        if pos != "between": continue
        if base == "ECHO_REQUEST" or not quick:
          for (f, v) in (("type", 22), ("type", 0xff), ("version", 2)): add(ii, inst, f, v, pos, glue)
        if base.startswith("PACKET_OUT") or not quick:
          for (label, off) in inst.emb:
            for v in (0, 0xffff): add(ii, inst, "emb:" + label, v, pos, glue)
  return out


# -- floods: sustained bursts of minimal messages; the loop's REAL wake-up pinger on a modelled pipe ---------------
PIPE_CAP = 65536                 # capacity of a Linux pipe (16 pages) unless somebody asks for another one
PIPE_BUF = 4096                  # writes up to this size are atomic


class Blocked (BaseException):
  """A system call that would never return: the calling thread is the only one that could make it return."""


class PipeOS (object):
  """Stands in for `os` inside pox.lib.util so that the REAL pinger code (make_pinger -> PipePinger over os.pipe /
  os.write / os.read) runs on a modelled pipe with the semantics the balance depends on: a byte counter with a
  capacity, descriptors that are blocking unless made non-blocking (os.set_blocking), a write that does not fit
  raises EAGAIN on a non-blocking descriptor and otherwise NEVER RETURNS (the I/O loop's thread is the pipe's only
  reader) - modelled by noting the call and raising Blocked; likewise a read of an empty pipe."""
  name = "posix"
  def __init__ (self):
    self.pipes = {}; self.nonblock = set(); self.next = 10 ** 6
    self.blocked = None          # (system call, pox function that made it, bytes in the pipe)
    self.max_backlog = 0; self.writes = 0; self.reads = 0; self.eagain = 0
  def pipe (self):
    r, w = self.next, self.next + 1; self.next += 2
    p = dict(n=0, r=r, w=w)
    self.pipes[r] = p; self.pipes[w] = p
    return (r, w)
  def set_blocking (self, fd, flag):
    if fd not in self.pipes:
      import os as _os; return _os.set_blocking(fd, flag)
    if flag: self.nonblock.discard(fd)
    else: self.nonblock.add(fd)
  def get_blocking (self, fd):
    if fd not in self.pipes:
      import os as _os; return _os.get_blocking(fd)
    return fd not in self.nonblock
  def _stuck (self, call, p, text):
    import errno
    self.blocked = (call, sys._getframe(2).f_code.co_name, p["n"])
    raise Blocked(text)
  def write (self, fd, data):
    p = self.pipes.get(fd)
    if p is None:
      import os as _os; return _os.write(fd, data)
    import errno
    if fd != p["w"]: raise OSError(errno.EBADF, "Bad file descriptor")
    n = len(data); room = PIPE_CAP - p["n"]
    self.writes += 1
    if n == 0: return 0
    k = n if room >= n else (0 if n <= PIPE_BUF else room)
    if k < n and fd not in self.nonblock:
      self._stuck("write", p, "write of %d byte(s) to a pipe holding %d of %d bytes" % (n, p["n"], PIPE_CAP))
    if k == 0:
      self.eagain += 1
      raise BlockingIOError(errno.EAGAIN, "Resource temporarily unavailable")
    p["n"] += k
    if p["n"] > self.max_backlog: self.max_backlog = p["n"]
    return k
  def read (self, fd, n):
    p = self.pipes.get(fd)
    if p is None:
      import os as _os; return _os.read(fd, n)
    import errno
    if fd != p["r"]: raise OSError(errno.EBADF, "Bad file descriptor")
    self.reads += 1
    if p["n"] == 0 and n > 0:
      if fd not in self.nonblock: self._stuck("read", p, "read of an empty pipe")
      raise BlockingIOError(errno.EAGAIN, "Resource temporarily unavailable")
    k = min(n, p["n"]); p["n"] -= k
    return b" " * k
  def close (self, fd):
    if fd in self.pipes: return
    if fd >= 10 ** 6: return          # a modelled descriptor of an earlier world (PipePinger.__del__)
    import os as _os; return _os.close(fd)
  def readable (self, fd):
    p = self.pipes.get(fd); return bool(p and p["r"] == fd and p["n"] > 0)
  def backlog (self):
    return max([p["n"] for p in self.pipes.values()] or [0])
  def __getattr__ (self, n):
    import os as _os
    return getattr(_os, n)


FLOOD_XID = 0x46000000           # + (connection << 20) + index
# kind -> (what one unit is, type of the reply every unit is owed (None: none), delivered to the handler?)
FLOOD_KINDS = {
  "unknown-type":    dict(sides="sw",    typ=0x63, length=8,  reply=W.ERROR, delivered=False, bad="unknown-type"),
  "bad-length":      dict(sides="sw",    typ=W.GET_CONFIG_REQUEST, length=12, reply=W.ERROR, delivered=False, bad="length!=fixed"),
  "echo-request":    dict(sides="swctl", typ=W.ECHO_REQUEST, length=8, reply=W.ECHO_REPLY, delivered=True, bad=None),
  "barrier-request": dict(sides="sw",    typ=W.BARRIER_REQUEST, length=8, reply=W.BARRIER_REPLY, delivered=True, bad=None),
  "barrier-reply":   dict(sides="ctl",   typ=W.BARRIER_REPLY, length=8, reply=None, delivered=True, bad=None),
}
FLOOD_TX = {"reads": None, "reads-512": 512, "stalls": 0}      # what the flooding peer does with the replies


def flood_unit (kind, i, k):
  K = FLOOD_KINDS[kind]
  return struct.pack("!BBHL", W.VERSION, K["typ"], K["length"], FLOOD_XID + (i << 20) + k) + b"\0" * (K["length"] - 8)


def flood_stream (kind, i, n):
  K = FLOOD_KINDS[kind]
  pad = b"\0" * (K["length"] - 8); typ, ln, base = K["typ"], K["length"], FLOOD_XID + (i << 20)
  pk = struct.Struct("!BBHL").pack
  return b"".join([pk(W.VERSION, typ, ln, base + k) + pad for k in range(n)])


def sibling_turn (t):
  """Turns of the flood phase in which every benign connection gets its next valid message: 1, 2, 3, 4, 6, 8, 12, 16,
  24, 32, ... (twice per octave)."""
  if t < 1: return False
  while t % 2 == 0 and t > 3: t //= 2
  return t in (1, 2, 3)


def flood_parties (case):
  H = case["hostile"]
  nconn = max(3, H + 1)
  hostile = list(range(1, 1 + H))
  return nconn, hostile, [i for i in range(nconn) if i not in hostile]


class FloodMixin (object):
  """Light bookkeeping for connections that receive 10^5 messages: (class name, xid, closed) per delivery."""
  def init_flood (self, hostile):
    self.hostile = hostile
    self.light = dict((i, []) for i in hostile)
    self.turns = 0; self.bytes_in = 0


class SwFlood (FloodMixin, SwWorld):
  def __init__ (self, nconn, hostile):
    self.init_flood(hostile)
    SwWorld.__init__(self, nconn, pipe=True)
  def _mk (self, i, orig):
    if i not in self.hostile: return SwWorld._mk(self, i, orig)
    light = self.light[i]; wk = None
    def rx (connection, msg):
      w = self.workers[i]
      light.append((type(msg).__name__, msg.xid, bool(w.closed or w._shutdown_send)))
      return orig(connection, msg)
    return rx


class CtlFlood (FloodMixin, CtlWorld):
  def __init__ (self, nconn, hostile):
    self.init_flood(hostile)
    CtlWorld.__init__(self)
    self.socks = [CSock(("switch", 100 + i)) for i in range(nconn)]
    self.nconn = nconn
    self.deliv = [[] for _ in range(nconn)]; self.pushed = [[] for _ in range(nconn)]; self.eof_pushed = [False] * nconn
  def record (self, i, msg, cls=""):
    if i not in self.hostile: return CtlWorld.record(self, i, msg, cls)
    self.light[i].append((cls + type(msg).__name__, getattr(msg, "xid", None), self.is_closed(i)))


def flood_execute (case):
  """Handshake on every connection (one message per select round); then the flood phase: every hostile connection
  has N units + one valid echo request (the marker) to hand over - all of it readable at once, or one chunk more per
  select round - while every benign connection gets its next valid message in the turns of sibling_turn(); the
  harness answers every Select honestly until nothing is readable / writable and nothing is left to arrive; then one
  more valid message per benign connection and an idle wake-up."""
  side = case["side"]
  nconn, hostile, benign = flood_parties(case)
  w = (SwFlood if side == "sw" else CtlFlood)(nconn, hostile)
  old = sys.stderr; sys.stderr = io.StringIO()
  try:
    for i in hostile: w.socks[i].tx_limit = FLOOD_TX[case["tx"]]
    w.completed = _flood_drive(case, w, hostile, benign)
    w.final_sel = w.selecting() if w.sel is not None and not w.dead else []
    w.closed = [w.is_closed(i) for i in range(nconn)]
    w.close_st = [w.close_state(i) for i in range(nconn)]
    w.peer_gone = [False] * nconn
    w.blocked = w.fos.blocked if w.fos is not None else None
    w.max_backlog = w.fos.max_backlog if w.fos is not None else 0
  finally:
    w.finish()
    sys.stderr = old
  return w


def _flood_drive (case, w, hostile, benign):
  side = case["side"]; n = case["n"]; mode = case["mode"]
  if not w.run_scripts([handshake(side, i) for i in range(w.nconn)]): return False
  w.marker = {}
  left = {}
  for i in hostile:
    m = Piece(W.echo_request(FLOOD_XID + (i << 20) + 0xfffff, b"marker"), True, "marker")
    w.marker[i] = m
    left[i] = flood_stream(case["kind"], i, n) + m.data
  total = sum(len(b) for b in left.values())
  w.flood_bytes = total
  # honest work is linear in the bytes handed over: a step may take 40 lines per readable byte on top of the usual budget
  chunk = None if mode == "all" else int(mode.split(":")[1])
  w.max_turns = 64 + total // 256 + (total // chunk if chunk else 0)
  nsib = [0] * w.nconn
  def sib ():
    for i in benign:
      w.push(i, valid_msg(side, i, nsib[i])); nsib[i] += 1
  t = 0
  while True:
    t += 1
    for i in hostile:
      if left[i]:
        k = len(left[i]) if chunk is None else chunk
        w.socks[i].rx.append(left[i][:k]); left[i] = left[i][k:]
    if sibling_turn(t): sib()
    if not w.select_ok(): return False
    r, wl = w.ready()
    if not r and not wl and not any(left.values()): break
    if t > w.max_turns:
      w.livelock = True; return False
    w.turns = t
    avail = sum(len(c) for i in hostile for c in w.socks[i].rx)
    w.budget = BUDGET + 40 * avail
    if not w.step(r, wl): return False
  w.budget = BUDGET
  sib()
  if not w.settle(): return False
  return w.step([])


def flood_class (case):
  return "flood:%s" % case["kind"], "one-flooding-connection" if case["hostile"] == 1 else "several-flooding-connections"


def flood_judge (case, w):
  """Same clauses as judge(), for a flood case.  Keys: loop-level verdicts (blocked / nonterminating / livelock / loop
  death) are keyed by the number of flooding connections (what the balance between replies and wake-ups depends on),
  not by the kind of unit; per-unit verdicts by kind."""
  side = case["side"]; kind = case["kind"]; K = FLOOD_KINDS[kind]; n = case["n"]
  nconn, hostile, benign = flood_parties(case)
  mc, fc = flood_class(case)
  bad = []
  def v (clause, symptom, subject, text):
    key = ":".join([PID, clause, side, symptom] + [x for x in subject if x])
    if not any(k == key for k, _ in bad): bad.append((key, text))
  lname = "OpenFlow_01_Task.run" if side == "ctl" else "RecocoIOLoop.run"
  # (1) termination
  if w.blocked:
    call, fn, held = w.blocked
    v("1", "loop-blocked-in-%s" % fn, [fc],
      "in turn %d of the flood %s called os.%s() on the loop's wake-up pipe holding %d of %d bytes: a blocking %s that only the "
      "calling thread could ever satisfy never returns - the scheduler thread, this I/O loop and every connection on it stop"
      % (w.turns, fn, call, held, PIPE_CAP, call))
    return bad, ("blocked", fn, call)
  if w.tripped or w.livelock:
    if w.tripped:
      v("1", "nonterminating", [mc, fc], "a step into %s exceeded %d lines with at most %d bytes to read" % (lname, w.budget, w.flood_bytes))
    else:
      v("1", "livelock", [mc, fc], "%s needed more than %d select rounds to take in %d bytes" % (lname, w.max_turns, w.flood_bytes))
    return bad, ("tripped" if w.tripped else "livelock",)
  # (2) loop alive
  if w.dead:
    site, via = (w.dead_site or (None, None))
    if site is None and w.looplog.exc: site, via = w.looplog.exc[-1]
    if w.dead == "select":
      v("2", "loop-died", [via], "%s left a closed socket (fileno() == -1) in the set it selects on" % lname)
    else:
      v("2", "loop-died", (["via=" + via, site] if via and via != "read>unpack_new" else ["via=" + via] if via else ["at=" + site] if site else [mc, fc]),
        "the generator of %s ended (%s)%s during a flood: no connection is served any more" % (lname, w.dead, " after %s" % site if site else ""))
    return bad, ("dead", site)
  for i in benign:
    if i not in w.final_sel:
      v("2", "sibling-dropped-from-select", [mc, fc], "sibling connection %d is no longer in the loop's read list" % i)
  if side == "ctl" and "L" not in w.final_sel:
    v("2", "listener-dropped-from-select", [mc, fc], "the listening socket is no longer selected on")
  # (3) siblings: delivered exactly their messages, in order; every echo request answered
  for i in benign:
    exp = [p.data for p in w.pushed[i]]
    got = [d["raw"] for d in w.deliv[i]]
    if w.closed[i]:
      v("3", "sibling-closed", [mc, fc], "sibling connection %d was closed" % i)
    elif got != exp:
      k = next((k for k in range(min(len(got), len(exp))) if got[k] != exp[k]), min(len(got), len(exp)))
      v("3", "sibling-messages-differ", [mc, fc], "sibling %d: sent %d messages, delivered %d; first difference at #%d" % (i, len(exp), len(got), k))
    if any(d["closed"] for d in w.deliv[i]):
      v("5", "delivered-after-close", [mc, fc], "sibling %d got a message delivered after it was closed" % i)
    replies = set((xid_of(m), m[8:]) for m in W.split(w.socks[i].tx)[0] if m[1] == W.ECHO_REPLY)
    for p in w.pushed[i]:
      if p.label == "echo-request" and (xid_of(p.data), p.data[8:]) not in replies and not w.closed[i]:
        v("3", "sibling-echo-unanswered", [mc, fc], "sibling %d: echo request xid %#x was not answered" % (i, xid_of(p.data)))
  # (4)/(5) the flooding connections
  summ = []
  stalled = FLOOD_TX[case["tx"]] == 0
  for i in hostile:
    base = FLOOD_XID + (i << 20)
    D = [d for d in w.light[i] if d[1] is not None and base <= d[1] <= base + 0xfffff]     # (class, xid, closed)
    closed = w.closed[i]
    if any(d[2] for d in D):
      v("5", "delivered-after-close", [mc, fc], "a message was delivered from flooding connection %d after it had been closed" % i)
    close_verdict(v, side, w, i)
    units = [base + k for k in range(n)]
    dx = [d[1] for d in D]
    # what the switch / controller wrote (a stalled peer: what it queued for writing)
    out = w.socks[i].tx
    if side == "sw": out = out + w.workers[i].send_buf
    else: out = out + b"".join(d for (c, d) in w.st.deferred.queued if c is w.cons[i])
    ms, _ = W.split(out)
    rx = [xid_of(m) for m in ms if K["reply"] is not None and m[1] == K["reply"] and base <= xid_of(m) < base + 0xfffff
          and (m[1] != W.ERROR or (len(m) >= 20 and m[12:16] == struct.pack("!BBH", W.VERSION, K["typ"], K["length"])))]
    mark = base + 0xfffff
    if K["delivered"]:
      if not closed and dx != units + [mark]:
        k = next((k for k in range(min(len(dx), n)) if dx[k] != units[k]), min(len(dx), n))
        v("4", "valid-not-delivered", [mc, fc], "flooding connection %d stayed open, %d valid %s units + 1 echo request sent, %d delivered; first difference at #%d"
          % (i, n, kind, len(dx), k))
    else:
      got_bad = [x for x in dx if x != mark]
      if got_bad:
        v("4", "malformed-delivered", [tname(K["typ"]), K["bad"]], "%d of %d malformed units (%s) of a flood were delivered as messages" % (len(got_bad), n, kind))
      if not closed and mark not in dx:
        v("4", "valid-not-delivered", [mc, fc], "the valid echo request behind %d %s units was not delivered although the connection stayed open" % (n, kind))
    if K["reply"] is not None and not closed:
      if rx != units:
        k = next((k for k in range(min(len(rx), n)) if rx[k] != units[k]), min(len(rx), n))
        if K["bad"]:
          v("4", "malformed-ignored" if len(rx) <= n and rx == units[:len(rx)] or k < len(rx) and rx[k] > units[k] else "malformed-answered-twice",
            [tname(K["typ"]), K["bad"]], "flooding connection %d stayed open: %d malformed units (%s), %d error replies; first difference at unit #%d"
            % (i, n, kind, len(rx), k))
        else:
          v("3", "flood-replies-differ", [mc, fc], "flooding connection %d stayed open: %d %s units, %d replies; first difference at unit #%d" % (i, n, kind, len(rx), k))
    summ.append((len(D), len(rx), closed))
  return bad, (tuple(summ), w.turns, w.max_backlog, tuple(sorted(set(w.logged()), key=repr)), tuple(len(w.deliv[i]) for i in benign))


def _n_class (n):
  return "n<=1024" if n <= 1024 else "n<=8192" if n <= 8192 else "n<=65536" if n <= 65536 else "n>65536"


FLOOD_N = (1, 2, 1023, 1024, 1025, 2047, 2048, 2049, 4096, 8191, 8192, 8193, 16384, 32768, 65536)
FLOOD_BIG = {1: (73728, 81920, 90112, 102400), 2: (40960, 65536, 73728, 102400), 3: (32768, 40960, 65536)}   # per flooding connection
FLOOD_MODES = ("all", "chunk:1000", "chunk:2048", "chunk:8192", "chunk:65536")


def flood_quick (side, H, n, kind, mode, tx):
  """The part of the thorough enumeration that the quick tier runs."""
  if H > 2: return False
  if n > 8192:                  # the long bursts: one per number of flooding connections
    return (H, n) in ((1, 81920), (2, 73728)) and kind == "unknown-type" and mode == "all"
  if tx != "reads": return mode == "all" and n in (1, 1025)
  if mode != "all":
    return mode in ("chunk:1000", "chunk:8192") and (n == 1025 or (n == 8192 and H == 1 and kind in ("bad-length", "barrier-reply")))
  if n in (1, 1023, 1024, 1025): return True
  if n == 8192: return kind in ("unknown-type", "echo-request") and (H == 1 or kind == "unknown-type")
  return False


def flood_cases (side, quick):
  """N units of one kind per flooding connection, on 1, 2 or 3 of the connections, all readable at once or arriving
  one chunk per select round, the peer reading the replies / reading 512 bytes per send / not reading."""
  out = []
  kinds = sorted(k for k in FLOOD_KINDS if side in FLOOD_KINDS[k]["sides"])
  for H in (1, 2, 3):
    for kind in kinds:
      for n in FLOOD_N + (FLOOD_BIG[H] if side == "sw" else ()):
        for mode in FLOOD_MODES:
          if n > 65536 and mode not in ("all", "chunk:8192", "chunk:65536"): continue
          for tx in sorted(FLOOD_TX):
            if tx != "reads" and (mode != "all" or n > 8192): continue
            if quick and not flood_quick(side, H, n, kind, mode, tx): continue
            out.append(dict(side=side, group="flood", name="flood", hostile=H, n=n, kind=kind, mode=mode, tx=tx))
  return out


HS_TYPES = dict(ctl=("HELLO", "FEATURES_REPLY", "BARRIER_REPLY"),
                sw=("HELLO", "FEATURES_REQUEST", "SET_CONFIG", "BARRIER_REQUEST"))
XID_MASKS = (1, 0x80000000, 0xffffffff)

def hs_cases (side, insts, quick):
  """Single-field corruption of each message of the handshake itself (after a valid prefix, in the
  handshake state), and environment faults that make the controller give a connection up mid-handshake
  (no nexus for the datapath; the n-th send on the hostile socket fails with EPIPE)."""
  names = [i.name for i in insts]
  out = []
  def add (k, field, val, envf=None):
    ii = names.index(HS_TYPES[side][k])
    out.append(dict(side=side, inst=ii, name=insts[ii].name, field=field, val=val, pos="hs%d" % k, glue=False, eof=False, env=envf))
  for k, tn in enumerate(HS_TYPES[side]):
    n = len(handshake(side, HOSTILE)[k].data or b"12345678")
    typ = W.TYPE_NAMES.index(tn)
    add(k, "none", 0)
    for m in XID_MASKS: add(k, "xid", m)
    for ver in VERSIONS: add(k, "version", ver)
    for ln in range(0, n + 9):
      if ln != n and (not quick or ln < 10 or abs(ln - n) <= 8): add(k, "hdr.length", ln)
    for t in (range(256) if not quick else TYPE_EDGE):
      if t != typ: add(k, "type", t)
  if side == "ctl": add(0, "none", 0, "no-nexus")
  for nth in range(0, 7 if side == "ctl" else 5):
    add(0, "none", 0, "epipe%d" % nth)
  return out


def load_insts ():
  """The catalogue followed by the large-length instances (the catalogue's indices stay what they are)."""
  base = R.catalogue()
  return base + R.big_catalogue(base, R.BIG_EDGE + R.BIG_NEAR + R.BIG_RECV)


def _worker (cases):
  insts = _INSTS[0] or load_insts()
  rep = Report(PID, "model_checking")
  for case in cases:
    if case.get("group") == "flood":
      _flood_case(rep, case)
      continue
    side = case["side"]; inst = insts[case["inst"]]
    try:
      w, bad, summ = _execute_and_judge(case, insts)
    except Exception as e:
      rep.error("case %r: %s: %s" % (case, type(e).__name__, e))
      continue
    rep.evaluations += 1
    rep.transitions += w.nsend
    fc = field_class(case, inst)
    rep.outcome((side, msg_class(case, inst), fc, case["pos"], case["glue"], cut_class(case, inst), summ, tuple(sorted(k for k, _ in bad))))
    for key, text in bad:
      rep.violation(key, "%s side, %s %s=%s%s placed %s (%s): %s" %
                    ("controller" if side == "ctl" else "switch", inst.name, case["field"], case["val"],
                     ("+EOF" if case["eof"] else "") + (" env=%s" % case["env"] if case.get("env") else ""), case["pos"],
                     ("recv boundaries at offsets %r of the message" % (case["cuts"],)) if case.get("cuts") else "one recv" if case["glue"] else "separate recvs", text),
                    case if not (("hdr.length<8" in key or "unframeable" in key) and case["field"] != "hdr.length") else
                    dict(case, note="the header with length < 8 is a by-product of the mis-framing this corruption causes"))
    if not bad and rep.evaluations % 400 == 1:
      rep.sample(dict(case=case, hostile_deliveries=[d["cls"] for d in w.deliv[HOSTILE]], errors_sent=len(w.errs[HOSTILE]),
                      hostile_closed=w.closed[HOSTILE], sibling_deliveries=[len(w.deliv[0]), len(w.deliv[2])]))
  return rep


def _flood_case (rep, case):
  try:
    w = flood_execute(case)
    bad, summ = flood_judge(case, w)
  except Exception as e:
    rep.error("case %r: %s: %s" % (case, type(e).__name__, e))
    return
  rep.evaluations += 1
  rep.transitions += w.nsend
  rep.outcome((case["side"], "flood", case["kind"], case["hostile"], case["mode"], case["tx"], _n_class(case["n"]), summ, tuple(sorted(k for k, _ in bad))))
  for key, text in bad:
    rep.violation(key, "%s side, flood of %d %s units on each of %d connection(s) (%s, peer %s), %d benign sibling(s): %s" %
                  ("controller" if case["side"] == "ctl" else "switch", case["n"], case["kind"], case["hostile"],
                   "all readable at once" if case["mode"] == "all" else "%s more bytes per select round" % case["mode"].split(":")[1],
                   case["tx"], len(flood_parties(case)[2]), text), case)
  if not bad and case["n"] in (1025, 81920) and case["mode"] == "all":
    rep.sample(dict(case=case, turns=w.turns, max_wakeup_pipe_backlog=w.max_backlog, flooding=[(len(w.light[i]), w.closed[i]) for i in w.hostile],
                    sibling_deliveries=[len(w.deliv[i]) for i in range(w.nconn) if i not in w.hostile]))


def run (cfg):
  R.selftest()
  insts = R.catalogue()
  allinsts = _INSTS[0] = load_insts()
  assert [i.name for i in allinsts[:len(insts)]] == [i.name for i in insts]
  quick = cfg.quick
  rep = Report(PID, "model_checking")
  cases = []
  for side in ("ctl", "sw"):
    for ii, inst in enumerate(insts):
      for group in ("len", "type", "misc", "trunc"):
        if cfg.only and cfg.only not in (side, inst.name, group, "%s/%s" % (side, inst.name)): continue
        if inst.groups is not None and group not in inst.groups: continue
        cases.extend(cases_for(side, ii, inst, group, quick))
    if not cfg.only or cfg.only in (side, "hs"):
      cases.extend(hs_cases(side, insts, quick))
    if not cfg.only or cfg.only in (side, "reset"):
      cases.extend(reset_cases(side, insts, quick))
    if not cfg.only or cfg.only in (side, "seg"):
      cases.extend(seg_cases(side, insts, quick))
    if not cfg.only or cfg.only in (side, "big"):
      cases.extend(big_cases(side, allinsts, quick))
  floods = []
  for side in ("ctl", "sw"):
    if not cfg.only or cfg.only in (side, "flood"):
      floods.extend(flood_cases(side, quick))
  # round-robin slices: every slice gets the same mix of cheap and expensive cases
  # the long floods are work items of their own (seconds each), the short ones go in a few slices
  items = [[c] for c in floods if c["n"] > 8192] + split([c for c in floods if c["n"] <= 8192], cfg.workers * 2) + split(cases, cfg.workers * 6)
  for r in pmap(_worker, [x for x in items if x], cfg.workers, seed=cfg.seed):
    rep.merge(r)
  rep.state_count = rep.evaluations
  rep.rule = ("for each side (controller: real OpenFlow_01_Task.run over a fake socket module; switch: real RecocoIOLoop.run "
              "with 3 worker+OFConnection+SoftwareSwitch stacks) and each of %d spec-encoded valid message instances (all 22 "
              "OpenFlow 1.0 types, 7 stats request and 7 stats reply bodies): every header length 0..len+8, every type byte "
              "0..255, version in %r, every embedded length field (actions_len, action len, flow-stats entry length, queue len, "
              "queue-prop len) in %r, every truncation point followed by EOF or by valid messages, and the unmodified instance; "
              "placed first / before / between / after valid traffic on hostile connection #1, delivered in one recv or in "
              "separate recvs, with two sibling connections exchanging valid messages in the same select rounds; plus, for every "
              "message of the handshake itself (controller: HELLO, FEATURES_REPLY, BARRIER_REPLY; switch: HELLO, FEATURES_REQUEST, "
              "SET_CONFIG, BARRIER_REQUEST) after its valid prefix: xid xor {1, 2^31, 2^32-1}, version, every header length "
              "0..len+8, every type byte, and the environment faults no-nexus-for-dpid and EPIPE on the n-th send (n = 0..6); plus, "
              "for every instance x {unmodified, version, header length 0..7, type 22/0xff} x position x chunking: the peer resets "
              "the connection behind the chunk with the corrupted message (fault sets reset, reset+close-raises; thorough also "
              "shutdown-enotconn, recv-reset, close-raises: shutdown -> ENOTCONN, recv -> ECONNRESET after the queued bytes, "
              "send -> ECONNRESET, close -> raises); plus segmentation: the stream [valid, M, valid] handed out in 2 or 3 recv "
              "chunks with the boundaries INSIDE messages, the remainder arriving in a later select round together with sibling "
              "traffic - for M in {unmodified, type 22/0xff, type re-typed to ECHO_REQUEST/FLOW_MOD/BARRIER_REQUEST, version 0/2, "
              "header length 7/8/len-1/len+1/len+8, foreign version + length 0x5420, every embedded length field in {0, 0xffff}} "
              "of every instance, boundary offsets (relative to M) from the lattice {-1, 1, 4, 7, 8, 9, len/2, declared-1, len-1, "
              "len+1, len+8} (thorough: 26 points incl. every header byte), boundary pairs from {4, 9, len-1, len+4}; for the "
              "three carrier instances (bodies made of complete valid messages: at offset 12 / 64, and a body that is nothing but "
              "eight 8-byte echo requests) EVERY boundary offset -9..len+12 under the header corruptions (thorough: every "
              "instance, positions first/before/between/after); plus large declared lengths whose bytes all arrive: every "
              "instance zero-extended to L (valid for opaque-tailed types, malformed for fixed-length / list types), a statistics "
              "request of unknown type with an L-byte body, a PACKET_OUT for an unknown buffer id filled by one vendor action "
              "(L %% 8 == 0), L in %r (quick: these for every instance; L in %r only for ECHO_REQUEST, VENDOR, PACKET_OUT, "
              "BARRIER_* and the two refused requests), unmodified and with type 22/0xff, version 2, actions_len / action len "
              "0 / 0xffff, in one push (the socket hands out recv-size pieces: 2048 controller, 8192 switch) or separate pushes; plus floods: "
              "N units of one kind (switch: 8-byte unknown type, 12-byte GET_CONFIG_REQUEST, 8-byte ECHO_REQUEST, BARRIER_REQUEST; controller: "
              "ECHO_REQUEST, BARRIER_REPLY) followed by one valid echo request on each of 1 / 2 / 3 connections of %d (the others benign, "
              "getting their next valid message in turns 1, 2, 3, 4, 6, 8, 12, 16, ... of the burst), N in %r (switch side also, per number "
              "of flooding connections, %r), all readable at once or %s more bytes per select round, the peer reading the replies / "
              "taking 512 bytes per send / not reading (N <= 8192), the switch's loop on the library's real PipePinger over a modelled "
              "pipe of %d bytes: every unit owed its reply (error quoting it / echo reply / barrier reply) exactly once and in order, "
              "every valid unit delivered in order, no blocking call on the wake-up pipe, step budget linear in the bytes readable%s. distinct = "
              "(side, message class, field class, position, chunking, boundary classes, deliveries/errors/closed/logged exceptions, verdict)"
              % (len(insts), VERSIONS, EMB_VALUES, R.BIG_EDGE, R.BIG_NEAR + R.BIG_RECV,
                 3, FLOOD_N, FLOOD_BIG, "/".join(m.split(":")[1] for m in FLOOD_MODES if ":" in m), PIPE_CAP,
                 " (quick tier reductions: the full type sweep 0..255 only at 'between' in one recv, type values 0..23,0x7f,0x80,0xfe,0xff at every "
                 "position in one recv (handshake group: these type values and lengths < 10 or within 8 of the valid one); position 'before' only in one recv; truncation+EOF as the first bytes only for cut points <= 12; "
                 "the 1068-byte desc stats reply only with lengths / cut points within 24 bytes of its start or 16 of its end; floods: 1 or 2 flooding "
                 "connections, N in {1, 1023, 1024, 1025} for every kind, 8192 for unknown-type / echo-request, one long burst per number of flooding "
                 "connections (81920 / 73728 unknown-type units, all readable at once), chunked arrival 1000 / 8192 and slow / stalled peers at N = 1, 1025)" if quick else ""))
  rep.bound = dict(connections=3, hostile=1, corruptions_per_stream=1, line_budget_per_step=BUDGET, select_rounds_per_step=MAXIT,
                   recv_boundaries_inside_messages=2, max_declared_length=65535, line_budget_per_step_64k_messages=BUDGET_BIG,
                   select_rounds_per_step_64k_messages=MAXIT_BIG, flood_units_per_connection=max(max(x) for x in FLOOD_BIG.values()),
                   flooding_connections=3, wakeup_pipe_capacity=PIPE_CAP, flood_line_budget_per_step="%d + 40 per readable byte" % BUDGET)
  rep.assumptions = ["select is answered honestly: readable = scripted socket with pending bytes/EOF or shut down for reading, sockets "
                     "always writable; a select set containing a closed socket (fileno() -1) raises ValueError = the loop is dead",
                     "every sibling echo request must be answered with the same xid and body",
                     "one corrupted field per hostile stream; recv chunks are one per message, one for the whole group, or (seg group) "
                     "2-3 chunks with boundaries inside messages; at most two boundaries per stream (C02 covers finer segmentation of valid traffic)",
                     "a step that carries a message of >= 2047 declared bytes gets a line budget of %d (decoding a 64 KiB list body is "
                     "~2.5e5 lines of linear work) and %d select rounds" % (BUDGET_BIG, MAXIT_BIG),
                     "zero-extended PACKET_IN instances carry total_len = length of the data (total_len below the data length is "
                     "not a valid PACKET_IN); a foreign-version HELLO delivered without its body counts as that HELLO",
                     "switch side: a connection counts as given up (nothing may be delivered from it any more, later units are excused) once "
                     "worker.closed or shutdown was requested (OFConnection.close only requests it); whether the close was carried out is a "
                     "clause of its own: at quiescence the socket of a connection that was given up must have been shut down or closed "
                     "unless bytes are still queued for it or the scripted peer has reset the connection",
                     "well-formed messages of the wrong direction and HELLO with a foreign version are unconstrained on the hostile connection",
                     "floods: the wake-up pipe is a byte counter of %d bytes (writes of <= %d bytes are all-or-nothing; a descriptor is blocking "
                     "unless os.set_blocking(fd, False) was called; a blocking write to a full pipe / read of an empty one never returns because "
                     "the loop's thread is the only reader and writer); a stalled peer (send -> EAGAIN, never writable) excuses the replies from "
                     "being written but not from being queued" % (PIPE_CAP, PIPE_BUF)]
  return rep


def replay (cfg, data):
  if data.get("group") == "flood":
    case = dict(data)
    w = flood_execute(case)
    bad, summ = flood_judge(case, w)
    lines = ["case: %r" % (case,)]
    lines.append("turns of the flood phase: %d; bytes to take in: %d; wake-up pipe: at most %d of %d bytes held, blocked: %r"
                 % (w.turns, getattr(w, "flood_bytes", 0), w.max_backlog, PIPE_CAP, w.blocked))
    for i in w.hostile:
      lines.append("flooding connection %d: %d deliveries, %d bytes written + %d queued, closed: %r"
                   % (i, len(w.light[i]), len(w.socks[i].tx), len(w.workers[i].send_buf) if case["side"] == "sw" else 0, w.closed[i]))
    lines.append("closed: %r  loop: %s  tripped: %s  selecting: %r" % (w.closed, w.dead or "alive", w.tripped, w.final_sel))
    lines.append("sibling deliveries: %r of %r" % ([len(w.deliv[i]) for i in range(w.nconn) if i not in w.hostile],
                                                   [len(w.pushed[i]) for i in range(w.nconn) if i not in w.hostile]))
    lines.append("exceptions logged by pox: %r" % (sorted(set(w.logged()), key=repr),))
    for key, text in bad: lines.append("VIOLATED %s: %s" % (key, text))
    return bool(bad), "\n".join(lines)
  insts = load_insts()
  case = dict(data); case.pop("note", None)
  if case.get("name"):                       # the instance is identified by name; the index is a cache
    case["inst"] = [i.name for i in insts].index(case["name"])
  w, bad, summ = _execute_and_judge(case, insts)
  inst = insts[case["inst"]]
  lines = ["case: %r (%s)" % (case, inst.name)]
  lines.append("hostile stream pieces: " + " | ".join("%s:%s" % (p.label, (p.data.hex() if len(p.data) <= 40 else p.data[:16].hex() + "..(%d bytes)" % len(p.data)) if p.data else "?") for p in w.pushed[HOSTILE]))
  dl = [(d["cls"], d["closed"]) for d in w.deliv[HOSTILE]]
  lines.append("hostile deliveries (%d): %r%s" % (len(dl), dl[:12], " ..." if len(dl) > 12 else ""))
  lines.append("errors sent on hostile: %r" % [(hex(x), tc) for x, d, tc in w.errs[HOSTILE]])
  lines.append("closed: %r  loop: %s  tripped: %s  selecting: %r" % (w.closed, w.dead or "alive", w.tripped, w.final_sel))
  lines.append("hostile connection: given up: %r  socket shut down or closed: %r  bytes still queued for it: %d" % w.close_st[HOSTILE])
  lines.append("sibling deliveries: %r of %r" % ([len(w.deliv[0]), len(w.deliv[2])], [len(w.pushed[0]), len(w.pushed[2])]))
  lines.append("exceptions logged by pox: %r" % (sorted(set(w.logged()), key=repr),))
  for key, text in bad:
    lines.append("VIOLATED %s: %s" % (key, text))
  return bool(bad), "\n".join(lines)
