"""C09 - connection life-cycle events and the connection registry stay consistent.

Real of_01.Connection objects on scripted sockets, a fresh real OpenFlowNexus + arbiter per
execution (mc.env.ControllerStack).  The peer is a faithful scripted switch (mc.refs.c09_lifecycle.Peer):
it builds spec-encoded bytes and echoes the xids it read from the bytes the controller wrote.

 (a) the handshake script [hello, features reply, desc stats reply, barrier reply | barrier-unsupported
     error] with up to k asynchronous messages inserted at every position, three segmentations;
 (b) connection loss after every prefix of (a): the I/O loop closes the connection after every message
     prefix; a send fails with EPIPE during every chunk (then close / then the in-flight rest, then close);
 (c) breadth-first search with state matching over histories of {open(i), deliver-next(i), close(i),
     send-error(i)} on 3 connections over 2 datapath ids;
 (d) every merge order of the handshake deliveries of 2 and of 3 connections of one datapath id
     (a connection accepted first may complete last), followed by every short sequence of closes;
 (e) the same life-cycle driven through the REAL OpenFlow_01_Task.run loop (scripted listener,
     non-blocking sockets, honest select) with messages split across reads and read-size boundaries
     (pending bytes exactly 2047/2048/2049/4095/4096/4097, features replies of 41..86 ports);
 (f) application listeners that ACT during the delivery of a life-cycle event (re-entrant use of the
     connection): for every (source nexus|Connection) x (ConnectionHandshakeComplete|ConnectionUp|FeaturesReceived|PortStatus|ConnectionDown) x
     (close | disconnect | send that fails | sendToDPID | raise) x (the event's connection | the older
     connection of the same datapath) x (once per connection | every time), histories of one connection
     (every prefix, then [send error,] close) and of two connections of one datapath (every merge order);
 (g) overlapping handshakes of two connections (datapath ids 1,2 and 1,1): every merge order of the two
     scripts, an asynchronous message at every position of each (also BEFORE the features reply), and
     connection 0 closed after every prefix while connection 1 goes on (state leaking between connections).
 (h) application listeners that only RETURN something to revent: every return value raiseEvent interprets
     (EventHalt, EventHaltAndRemove, True, (), event.halt = True, EventContinue, EventRemove, False) x every event
     raised while a connection comes up / carries port-status / goes down, on the nexus and on the Connection
     (a halted ConnectionUp / FeaturesReceived / ConnectionHandshakeComplete must not swallow the early port-status);
 (i) state that exists BEFORE the connection: the controller-wide xid counter positioned so that the n-th xid
     drawn is the last one below 2**31 (wrap-around) / 2**24 / 2**16 / 2**8, for every n a handshake (or two)
     can draw; every combination of the nexus / handshake options that decide which requests the handshake sends;
     the switch choosing 0 / 0xffffffff / the pending request's xid for the messages it originates.
 (j) handshake messages AGAIN after connection-up: breadth-first search over histories of two announced connections
     (one datapath, either announcement order; two datapaths) in which a second hello / an application's features request
     is answered by a second features reply (+ port-status in the same read), with send errors and closes in between
     (a stale or lost connection must not re-register itself);
 (k) the lattice of UNRELATED errors (xid choice x type/code x error body, mc.refs.c09_lifecycle.err_kinds) at every
     position of the handshake: none of them is the barrier-unsupported error, none may complete the handshake;
 (l) faults of the real loop: recv() raising each errno a lost TCP connection produces, an exceptional condition reported
     by select, accept() raising each errno of a failed attempt / resource shortage, the controller's hello meeting EPIPE -
     after every step of a handshake, next to an announced connection of the same / of another datapath, followed by a
     reconnect; the loop must go on serving (a connection lost later still gets its ConnectionDown).
In every part an application listener reads the registry DURING the delivery of every life-cycle event.

Oracle: mc.refs.c09_lifecycle.Ref, evaluated after every operation (events on the nexus and on the
Connection, the registry, and a sendToDPID probe for every datapath id).
"""
import sys, traceback, os
from mc.engine import bfs, pmap, split
from mc.report import Report
from mc.refs import ofwire as W
from mc.refs import c09_lifecycle as L

PID = "C09"
HS = ("hello", "features", "desc")
NSLOT = 5
DPIDS_ALL = (1, 2)


class Stop (Exception): pass


def pox_site (tb):
  """basename:function of the innermost pox frame of a traceback."""
  site = None
  for fr in traceback.extract_tb(tb):
    if "/pox/" in fr.filename: site = "%s:%s" % (os.path.basename(fr.filename), fr.name)
  return site or "harness"


class World (object):
  """One execution: real controller objects + scripted peers + reference model."""
  def __init__ (self, dpids, spec=None, ret=None, opts=None):
    from mc.env import ControllerStack, VClock
    self.st = ControllerStack(clock=VClock())
    self.of01 = self.st.of01
    self.of01.Connection._aborted_connections = 0
    # parts (h)/(i): a listener that only RETURNS something to revent; controller options
    self.ret = tuple(ret) if ret else None      # None | (where, event, form)
    self.halted = set()                 # (where, event, slot, port-status ident | None) the listener halted
    self.ret_calls = 0
    self.opts = tuple(opts) if opts else None   # None | (miss_send_len, clear_flows_on_connect, request_description, switch xid mode)
    self._saved_reqdesc = self.of01.HandshakeOpenFlowHandlers.request_description
    if self.opts is not None:
      self.st.nexus.miss_send_len = self.opts[0]
      self.st.nexus.clear_flows_on_connect = self.opts[1]
      self.of01.HandshakeOpenFlowHandlers.request_description = self.opts[2]
    self.dpids = list(dpids)            # dpid of connection slot i
    self.ref = L.Ref()
    self.peers = {}
    self.cidx = {}                      # slot -> index in st.cons
    self.slot_of = {}                   # index in st.cons -> slot
    self.con_events = []                # (name, slot, event) raised on Connection objects
    self.nlog = {}                      # slot -> [('up',)|('down',)|('ps', ident)] on the nexus
    self.clog = {}                      # same, raised on the Connection
    self.ev_mark = 0; self.cev_mark = 0
    self.bad = []
    self.shown = 0
    self.lines = []
    self.transitions = 0
    self.probe_n = 0
    self.prev_reg = {}
    self.read_exceptions = []
    # application listeners (observe the registry during delivery; part (f): act on a connection)
    self.spec = spec                    # None | (where, event, action, target, mode)
    self.cur = None                     # [slot, items, next index] of the chunk being delivered
    self.acted = set()                  # slots a listener acted on during the current operation
    self.announced = []                 # slots in the order of their ConnectionUp on the nexus
    self.fired_once = set()
    self.depth = 0                      # nesting of acting listeners
    self.fires = 0
    self.lsn_epipe = {}                 # slot -> failed sends scripted by a listener
    self.lprobe_n = 0
    self.tag = ""                       # cause suffix of registry keys for the operation being checked
    ofm = self.st.ofm
    for name, ev in (("ConnectionUp", ofm.ConnectionUp), ("ConnectionDown", ofm.ConnectionDown), ("PortStatus", ofm.PortStatus),
                     ("ConnectionHandshakeComplete", ofm.ConnectionHandshakeComplete), ("FeaturesReceived", ofm.FeaturesReceived)):
      # after the recorder (same source, lower priority): the logs keep the order in which events are RAISED
      self.st.nexus.addListener(ev, (lambda e, name=name: self.on_event(name, "nexus", e)), priority=-1)
    if self.ret and self.ret[0] == "nexus":
      # after the recorder AND after the registry-reading listener: both still see every event that is raised
      self.st.nexus.addListener(getattr(ofm, self.ret[1]), self._ret_listener(self.ret[1], "nexus"), priority=-2)

  def dispose (self):
    self.of01.HandshakeOpenFlowHandlers.request_description = self._saved_reqdesc
    try: self.st.core.removeListener(self.st.nexus._handle_DownEvent)
    except Exception: pass

  def _ret_listener (self, name, where):
    """An application listener that does nothing but hand one of the return values revent understands back
    to raiseEvent (or sets event.halt).  Which events it halted is remembered: pox by design does not
    re-raise a ConnectionUp / PortStatus halted on the nexus on the Connection object."""
    import pox.lib.revent as R
    form = self.ret[2]
    def h (e):
      slot = self._slot(e.connection)
      self.ret_calls += 1
      if form in RET_HALTS:
        self.halted.add((where, name, slot, self._ps_ident(e) if name == "PortStatus" else None))
      self.lines.append("  [listener] %s for connection %r on the %s: application listener %s" % (name, slot, where, RET_FORMS[form]))
      if form == "set-halt":
        e.halt = True
        return None
      return {"EventHalt": R.EventHalt, "EventHaltAndRemove": R.EventHaltAndRemove, "True": True, "empty-tuple": (),
              "EventContinue": R.EventContinue, "EventRemove": R.EventRemove, "False": False}[form]
    return h

  def fail (self, clause, what):
    if clause.endswith(":connection"):
      # the same clause already failed for the event raised on the nexus: one defect, one key
      if any(b[0] == "%s:%s:nexus" % (PID, clause[:-len(":connection")]) for b in self.bad): return
    k = "%s:%s" % (PID, clause)
    if not any(b[0] == k for b in self.bad): self.bad.append((k, what))

  def guarded (self, site, fn, *a):
    """Call into pox; an escaping exception is a violation of its own."""
    self.transitions += 1
    try:
      return fn(*a)
    except Exception as e:
      self.fail("raises:%s:%s:%s" % (site, pox_site(sys.exc_info()[2]), type(e).__name__),
                "%s raised %s: %s" % (site, type(e).__name__, e))
      raise Stop()

  def con (self, i): return self.st.cons[self.cidx[i]]

  # ---- observation ------------------------------------------------------------
  def _listen (self, i, con):
    ofm = self.st.ofm
    for name, ev in (("ConnectionUp", ofm.ConnectionUp), ("ConnectionDown", ofm.ConnectionDown), ("PortStatus", ofm.PortStatus)):
      con.addListener(ev, (lambda e, name=name, i=i: self.con_events.append((name, i, e))))
      con.addListener(ev, (lambda e, name=name: self.on_event(name, "connection", e)), priority=-1)
    con.addListener(ofm.FeaturesReceived, (lambda e: self.on_event("FeaturesReceived", "connection", e)), priority=-1)
    if self.ret and self.ret[0] == "connection":
      con.addListener(getattr(ofm, self.ret[1]), self._ret_listener(self.ret[1], "connection"), priority=-2)

  @staticmethod
  def _ps_ident (e):
    hw = e.ofp.desc.hw_addr
    raw = hw.toRaw() if hasattr(hw, "toRaw") else bytes(hw)
    return (e.ofp.reason, e.ofp.desc.port_no, int.from_bytes(raw[4:6], "big"))

  def collect (self, i):
    """Move new events into the per-connection logs.  Returns a short summary of them."""
    summ = []
    new = self.st.events[self.ev_mark:]; self.ev_mark = len(self.st.events)
    for name, idx, e in new:
      slot = self.slot_of.get(idx)
      if name in ("ConnectionUp", "ConnectionDown", "PortStatus"):
        if slot != i and slot not in self.acted:
          self.fail("event:%s:for-another-connection" % name, "operation on connection %r raised %s on the nexus for connection %r" % (i, name, slot))
        if slot is None: continue
        if name == "PortStatus": self.nlog[slot].append(("ps", self._ps_ident(e)))
        else:
          self.nlog[slot].append(("up" if name == "ConnectionUp" else "down",))
          want = self.ref.cons[slot].dpid
          if e.dpid != want or e.connection is not self.con(slot):
            self.fail("event:%s:wrong-dpid" % name, "%s for connection %d carries dpid %r, the switch's datapath id is %r" % (name, slot, e.dpid, want))
      summ.append((name, slot))
    newc = self.con_events[self.cev_mark:]; self.cev_mark = len(self.con_events)
    for name, slot, e in newc:
      if e.connection is not self.con(slot):
        self.fail("event:%s:for-another-connection" % name, "%s raised on connection %d names another connection" % (name, slot))
      if name == "PortStatus": self.clog[slot].append(("ps", self._ps_ident(e)))
      else: self.clog[slot].append(("up" if name == "ConnectionUp" else "down",))
    return summ

  def absorb (self, i):
    return self.peers[i].absorb(self.st.take_tx(self.cidx[i]))

  # ---- operations -------------------------------------------------------------
  loop = "harness"      # who plays the I/O loop: the harness (Connection.read / close called directly) or the real task

  def _accept (self, i):
    self.st.connect()

  def _feed (self, i, data, cuts):
    return self.st.feed(self.cidx[i], data)

  def open (self, i):
    self.guarded("Connection()", self._accept, i)
    k = len(self.st.cons) - 1
    self.cidx[i] = k; self.slot_of[k] = i
    self.nlog[i] = []; self.clog[i] = []
    self.peers[i] = L.Peer(self.dpids[i])
    if self.opts is not None and len(self.opts) > 3: self.peers[i].xid_mode = self.opts[3]
    self.ref.open(i, self.dpids[i])
    self._listen(i, self.st.cons[k])
    tx = self.absorb(i)
    self.lines.append("open(%d) dpid %d: controller wrote %s" % (i, self.dpids[i], tx))
    return self.check(i, "open", tx)

  def deliver (self, i, items, fail=False, cuts=()):
    """One recv() chunk made of the given (kind, serial) items; with fail, the first send the
    controller attempts while handling it raises EPIPE.  cuts (real-loop worlds only): byte offsets
    at which the chunk is split into separately arriving segments."""
    peer = self.peers[i]
    data = b"".join(peer.build(k, s) for k, s in items)
    sock = self.con(i).sock
    nsend0 = len(sock.sends)
    if fail: sock.send_script = ["epipe"]
    raised = None
    self.transitions += 1
    self.cur = cur = [i, items, 0]
    if any(k == "features-again" for k, s in items): self.tag = ":after-post-handshake-features-reply"
    lep0 = self.lsn_epipe.get(i, 0)
    try:
      r = self._feed(i, data, cuts)
    except Stop:
      raise
    except Exception as e:
      # OpenFlow_01_Task.run catches whatever escapes read(), logs it and closes the connection.
      # The statement does not forbid that, so the oracle only follows the life-cycle from here.
      raised = "%s:%s: %s" % (pox_site(sys.exc_info()[2]), type(e).__name__, e)
      self.read_exceptions.append(raised)
      r = "raised " + raised
    self.cur = None
    # (failed sends scripted by an acting listener are accounted for by the listener itself)
    fired = len([1 for n, o in sock.sends[nsend0:] if o == "epipe"]) > self.lsn_epipe.get(i, 0) - lep0
    sock.send_script = []
    healthy = self.ref.cons[i].live and not raised and not fired
    stage = self.ref.cons[i].stage
    if raised or r is False: self.ref.lost(i)       # how far into the chunk the controller got is unknown
    # reference: messages in arrival order; the failed send (if it fired) belongs to the first
    # message that makes a controller write
    marked = False
    for k, s in items[cur[2]:]:         # (messages up to a listener's action were accounted for when it acted)
      sends = self.ref.makes_controller_send(i, k)
      self.ref.message(i, k, s)
      if fired and sends and not marked:
        self.ref.lost(i); marked = True
    if fired and not marked: self.ref.lost(i)
    tx = self.absorb(i)
    self.lines.append("deliver(%d) %s%s%s: %s -> %r, controller wrote %s" % (
      i, "+".join(k for k, s in items), " (%d bytes, segments cut at %r)" % (len(data), list(cuts)) if cuts or self.loop == "task" else "",
      " [first send fails: EPIPE%s]" % ("" if fired else ", not reached") if fail else "",
      "read()" if self.loop == "harness" else "connection still served by the loop", r, tx))
    if r is False or raised:
      # the I/O loop closes a connection whose read() returns False or raises
      self.lines.append("  read() %s for well-formed input: the I/O loop closes the connection" % ("raised" if raised else "returned False"))
      if self.loop == "harness": self.guarded("Connection.close", self.st.close, self.cidx[i])
      self.ref.closed(i)
      if healthy:
        # nothing was wrong with the connection or its input: it can no longer be announced (or gets a
        # ConnectionDown although it was not lost)
        self.fail("lifecycle:healthy-connection-closed-by-loop",
                  "connection %d (stage %s) received well-formed bytes (%d bytes, segments cut at %r), read() did not return True and the I/O loop closed it"
                  % (i, stage, len(data), list(cuts)))
    return self.check(i, "deliver-fail" if fired else "deliver", (tx, r))

  def close (self, i):
    self.guarded("Connection.close", self.st.close, self.cidx[i])
    self.ref.closed(i)
    self.lines.append("close(%d)" % i)
    return self.check(i, "close", None)

  def app_send_fail (self, i):
    """An application sends a barrier request to an announced connection; the socket answers EPIPE."""
    import pox.openflow.libopenflow_01 as of
    con = self.con(i); d = self.dpids[i]
    con.sock.send_script = ["epipe"]
    via = "connection.send"
    if i in self.ref.registry(DPIDS_ALL).get(d, ()) and self.st.nexus.getConnection(d) is con:
      via = "sendToDPID"
      self.guarded("sendToDPID", self.st.nexus.sendToDPID, d, of.ofp_barrier_request())
    else:
      self.guarded("Connection.send", con.send, of.ofp_barrier_request())
    con.sock.send_script = []
    self.ref.lost(i)
    self.st.take_tx(self.cidx[i])
    self.lines.append("send-error(%d): %s of a barrier request, socket raises EPIPE" % (i, via))
    return self.check(i, "send-error", via)

  def app_request_features (self, i):
    """An application sends a features request on connection i (the switch will answer it later)."""
    import pox.openflow.libopenflow_01 as of
    self.guarded("Connection.send", self.con(i).send, of.ofp_features_request())
    tx = self.absorb(i)
    self.lines.append("request-features(%d): application sends a features request on the connection, controller wrote %s" % (i, tx))
    return self.check(i, "request-features", tx)

  # ---- application listeners ------------------------------------------------------
  MAX_NEST = 6          # an acting listener re-entered deeper than this stops acting (bounds runaway recursion)

  def _slot (self, con):
    return self.slot_of.get(self.st.cons.index(con)) if con in self.st.cons else None

  def on_event (self, name, where, e):
    """An application's listener for a life-cycle event (called after the recorder).  Always: read the
    registry DURING delivery.  With a spec (part f): act on a connection from inside the listener."""
    try:
      self._on_event(name, where, e)
    except Stop:
      pass

  def _on_event (self, name, where, e):
    con = e.connection
    slot = self._slot(con)
    ref = self.ref.cons.get(slot)
    self.transitions += 1
    reg = self.real_registry()
    for d, s in sorted(reg.items(), key=repr):
      rc = self.ref.cons.get(s)
      if rc is None or not rc.live or (name == "ConnectionDown" and s == slot):
        if any(b[0].startswith("%s:registry:during-" % PID) and "lost-connection-registered" in b[0] for b in self.bad):
          continue      # one defect, one key: the first event during which it shows
        self.fail("registry:during-%s:lost-connection-registered%s" % (name, self.tag),
                  "while %s for connection %r is delivered on the %s, datapath %r is registered to connection %r which %s"
                  % (name, slot, where, d, s, "is the one reported down" if (name == "ConnectionDown" and s == slot) else "is lost"))
    if name == "ConnectionUp" and ref is not None and ref.live and reg.get(ref.dpid) != slot:
      self.fail("registry:during-ConnectionUp:announced-connection-not-registered",
                "while ConnectionUp for live connection %r is delivered on the %s, datapath %r is registered to %r" % (slot, where, ref.dpid, reg.get(ref.dpid)))
    if name == "ConnectionUp" and where == "nexus" and slot is not None and slot not in self.announced:
      self.announced.append(slot)
    sp = self.spec
    if sp is None or slot is None or sp[0] != where or sp[1] != name: return
    swhere, sevent, action, target, mode = sp
    if target == "self": tgt = slot
    else:
      # the connection of the same datapath the application saw come up before this one
      older = [s for s in self.announced if s != slot and self.dpids[s] == self.dpids[slot]]
      if not older: return
      tgt = older[-1]
    if mode == "once":
      if tgt in self.fired_once: return
      self.fired_once.add(tgt)
    if self.depth >= self.MAX_NEST: return
    self.depth += 1; self.fires += 1
    try:
      self._act(name, where, e, slot, tgt, action)
    finally:
      self.depth -= 1

  def _catch_up (self, slot, name, e):
    """The listener acts while message n of the current chunk is being handled: the reference reads the
    messages up to and including the one that caused this event before the action takes effect."""
    cur = self.cur
    if cur is None or cur[0] != slot or name == "ConnectionDown": return
    c = self.ref.cons[slot]
    ident = self._ps_ident(e) if name == "PortStatus" else None
    def reached ():
      if c.stage != "up": return False
      return ident is None or ident in c.deferred or ident in c.post or ident in c.pre or ident in c.unconstrained
    while not reached() and cur[2] < len(cur[1]):
      k, s = cur[1][cur[2]]; cur[2] += 1
      self.ref.message(slot, k, s)

  def _drop (self, tgt, closed, name, where, slot):
    """A listener drops connection tgt.  Port-status messages not yet delivered on both sources are no
    longer demanded (the statement does not say whether a dropped connection still gets them)."""
    c = self.ref.cons[tgt]
    if c.live and not (name == "ConnectionDown" and tgt == slot):
      # (events of the running operation are not collected into nlog/clog yet)
      done_c = set(self._ps_ident(ev) for n, s, ev in self.con_events[self.cev_mark:] if n == "PortStatus" and s == tgt)
      done_n = set(self._ps_ident(ev) for n, k, ev in self.st.events[self.ev_mark:] if n == "PortStatus" and self.slot_of.get(k) == tgt)
      alln = set(x[1] for x in self.nlog[tgt] if x[0] == "ps") | done_n
      allc = set(x[1] for x in self.clog[tgt] if x[0] == "ps") | done_c
      done = alln & allc
      for x in list(c.deferred) + list(c.post):
        if x not in done: c.unconstrained.add(x)
      c.deferred = [x for x in c.deferred if x in done]
      c.post = [x for x in c.post if x in done]
      if name == "ConnectionUp" and where == "nexus" and tgt == slot:
        c.dropped_during_nexus_up = True      # ConnectionUp on the Connection itself has not been raised yet
      if name == "ConnectionHandshakeComplete" and tgt == slot:
        # lost after the barrier reply but BEFORE it was announced anywhere: connection-up is no longer demanded
        # (and must not follow the connection-down the drop may produce)
        c.completed_live = False
        c.dropped_before_up = name
    if closed: self.ref.closed(tgt)
    else: self.ref.lost(tgt)
    self.acted.add(tgt)

  def _act (self, name, where, e, slot, tgt, action):
    import pox.openflow.libopenflow_01 as of
    tcon = self.con(tgt)
    what = "%s listener on the %s, %s(connection %d)" % (name, where, action, tgt)
    self.lines.append("  [listener] %s for connection %d on the %s: application calls %s on connection %d" % (name, slot, where, action, tgt))
    def call (site, fn, *a):
      self.transitions += 1
      try: return fn(*a)
      except Exception as ex:
        self.fail("raises:%s:%s:%s" % (site, pox_site(sys.exc_info()[2]), type(ex).__name__), "%s raised %s: %s" % (what, type(ex).__name__, ex))
        return None
    if action in ("close", "disconnect"):
      if tgt == slot: self._catch_up(slot, name, e)
      self._drop(tgt, action == "close", name, where, slot)
      if action == "close": call("listener:Connection.close", tcon.close)
      else: call("listener:Connection.disconnect", tcon.disconnect)
    elif action == "send-epipe":
      if tgt == slot: self._catch_up(slot, name, e)
      n0 = len(tcon.sock.sends)
      saved = tcon.sock.send_script
      tcon.sock.send_script = ["epipe"]
      call("listener:Connection.send", tcon.send, of.ofp_barrier_request())
      tcon.sock.send_script = saved
      if any(o == "epipe" for n, o in tcon.sock.sends[n0:]):
        self.lsn_epipe[tgt] = self.lsn_epipe.get(tgt, 0) + 1
        self._drop(tgt, False, name, where, slot)
    elif action == "sendToDPID":
      d = self.dpids[slot]
      self.lprobe_n += 1
      data = W.barrier_request(0x0c09f000 + self.lprobe_n)
      r = call("listener:sendToDPID", self.st.nexus.sendToDPID, d, data)
      holders = []
      for s, k in sorted(self.cidx.items()):
        sk = self.st.cons[k].sock
        if data in sk.tx:
          holders.append(s); sk.tx = sk.tx.replace(data, b"")
      for s in holders:
        rc = self.ref.cons[s]
        if not rc.live or (name == "ConnectionDown" and s == slot):
          self.fail("sendToDPID:during-%s:bytes-written-to-lost-connection" % name,
                    "sendToDPID(%d) called from a %s listener (event for connection %d) wrote to connection %d which is lost" % (d, name, slot, s))
      c = self.ref.cons[slot]
      if name == "ConnectionUp" and c.live and (not r or holders != [slot]):
        self.fail("sendToDPID:during-ConnectionUp:announced-connection-not-reached",
                  "sendToDPID(%d) called from the ConnectionUp listener of live connection %d returned %r and wrote to connections %r" % (d, slot, r, holders))
      self.lines.append("  [listener] sendToDPID(%d) -> %r, bytes on connections %r" % (d, r, holders))
    elif action == "raise":
      raise RuntimeError("application listener failed")

  # ---- oracle -------------------------------------------------------------------
  def check_events (self, i, where, log):
    c = self.ref.cons[i]
    # events an application listener halted on the nexus are (by pox's design) not raised again on the Connection
    # object; the statement does not say on which source, so the Connection's own log is not asked for them
    up_halted = where == "connection" and ("nexus", "ConnectionUp", i, None) in self.halted
    ps_halted = set(h[3] for h in self.halted if h[:3] == ("nexus", "PortStatus", i)) if where == "connection" else ()
    ups = [n for n, x in enumerate(log) if x[0] == "up"]
    downs = [n for n, x in enumerate(log) if x[0] == "down"]
    pss = [(n, x[1]) for n, x in enumerate(log) if x[0] == "ps"]
    # connection-up
    if not c.completed:
      if ups: self.fail("up:premature:stage=%s:%s" % (c.stage, where),
                        "ConnectionUp raised on the %s for connection %d whose handshake has only reached stage '%s'" % (where, i, c.stage))
    else:
      if len(ups) > 1: self.fail("up:raised-twice:%s" % where, "ConnectionUp raised %d times on the %s for connection %d" % (len(ups), where, i))
      if c.completed_live and not ups and not up_halted and not (where == "connection" and getattr(c, "dropped_during_nexus_up", False)):
        self.fail("up:missing:%s" % where, "connection %d received features reply and barrier reply but ConnectionUp was not raised on the %s" % (i, where))
    # port status
    if pss and not ups and where == "connection" and getattr(c, "dropped_during_nexus_up", False):
      pass      # the Connection object never announced the connection a nexus listener dropped: nothing is said about its later messages
    elif pss and not ups and getattr(c, "dropped_before_up", None):
      pass      # lost before it was announced anywhere: nothing is said about the messages it still receives
    elif pss and not ups and up_halted:
      pass      # ConnectionUp was halted on the nexus: the Connection object passes port-status on without having announced itself
    elif pss and (not ups or pss[0][0] < ups[0]):
      self.fail("portstatus:before-up:%s" % where, "PortStatus %r delivered on the %s before ConnectionUp of connection %d" % (pss[0][1], where, i))
    ids = [x for n, x in pss]
    if len(set(ids)) != len(ids):
      self.fail("portstatus:duplicate:%s" % where, "a port-status message was delivered twice on the %s: %r" % (where, ids))
    if ups:
      got = [x for x in ids if x not in c.pre and x not in c.unconstrained]
      want = self.ref.required_ps(i)
      if ps_halted: want = [x for x in want if x in got or x not in ps_halted]
      if got != want:
        here = set(c.pre) | set(c.deferred) | set(c.post) | c.unconstrained
        foreign = [x for x in got if x not in here and any(x in (set(o.pre) | set(o.deferred) | set(o.post) | o.unconstrained)
                                                              for j, o in self.ref.cons.items() if j != i)]
        if foreign: cl = "from-another-connection"
        elif sorted(got) == sorted(want): cl = "order"
        elif set(want) - set(got):
          miss = sorted(set(want) - set(got))
          cl = "lost:" + ("deferred" if miss[0] in c.deferred else "after-up")
        else: cl = "unknown-message"
        self.fail("portstatus:%s:%s" % (cl, where), "connection %d: port-status messages delivered on the %s %r, received after the features reply (in arrival order) %r"
                  % (i, where, got, want))
    # connection-down
    announced = bool(ups)
    if downs and ups and downs[0] < ups[0]:
      if where == "connection" and getattr(c, "dropped_during_nexus_up", False):
        # a ConnectionUp listener on the nexus dropped the connection: the Connection object may stay silent,
        # but announcing a connection on it after it was reported down is the same clause with a cause of its own
        self.fail("down:before-up:connection:dropped-by-nexus-ConnectionUp-listener",
                  "a ConnectionUp listener on the nexus closed/disconnected connection %d; the Connection then raised ConnectionDown and AFTER it ConnectionUp" % i)
      elif getattr(c, "dropped_before_up", None):
        self.fail("down:before-up:%s:dropped-by-%s-listener" % (where, c.dropped_before_up),
                  "a %s listener closed/disconnected connection %d before it was announced; ConnectionDown was raised on the %s and AFTER it ConnectionUp" % (c.dropped_before_up, i, where))
      else:
        self.fail("down:before-up:%s" % where, "ConnectionDown precedes ConnectionUp for connection %d" % i)
    if announced:
      if len(downs) > 1: self.fail("down:raised-twice:%s" % where, "ConnectionDown raised %d times on the %s for connection %d" % (len(downs), where, i))
      if c.live and downs: self.fail("down:spurious:%s" % where, "ConnectionDown raised on the %s for connection %d which is not lost" % (where, i))
      if c.closed and not downs:
        self.fail("down:missing:%s" % where, "announced connection %d was closed by the I/O loop but ConnectionDown was not raised on the %s" % (i, where))

  def real_registry (self):
    out = {}
    for d, c in self.st.nexus.connections.items():
      out[d] = self.slot_of.get(self.st.cons.index(c)) if c in self.st.cons else "?"
    return out

  def check_registry (self, i, op):
    want = self.ref.registry(DPIDS_ALL)
    real = self.real_registry()
    ok = set()
    for d in sorted(set(real) | set(want) | set(DPIDS_ALL)):
      r = real.get(d); w = want.get(d)
      if d not in DPIDS_ALL:
        self.fail("registry:unknown-dpid", "registry contains datapath id %r which no switch reported" % (d,)); continue
      if w is None and r is None: ok.add(d); continue
      if r is not None and (w is None or r not in w):
        rc = self.ref.cons.get(r)
        if rc is None: cl = "unknown-connection"
        elif not rc.live: cl = "lost-connection-registered"
        elif not rc.completed: cl = "half-handshaken-connection-registered"
        else: cl = "not-most-recent-connection"
        if self.tag and cl == "lost-connection-registered" and any(b[0].startswith("%s:registry:during-" % PID) and cl in b[0] for b in self.bad):
          continue      # already reported from inside the event the re-registration raised: one defect, one key
        self.fail("registry:%s%s" % (cl, self.tag), "after %s(%d): datapath %d is registered to connection %r (stage %s, live %s); live fully handshaken connections: %r"
                  % (op, i, d, r, rc and rc.stage, rc and rc.live, sorted(c.idx for c in self.ref.live_up(d))))
        continue
      if r is None:
        if self.prev_reg.get(d) == i:
          cl = "no-fallback-to-older-live-connection"
        else:
          cl = "live-connection-unregistered-by-loss-of-another"
        oc = self.ref.cons[i]
        self.fail("registry:%s" % cl, "after %s(%d) [that connection: dpid %d, stage %s]: datapath %d is not reachable through the registry although connection(s) %r are live and fully handshaken (registered before: %r)"
                  % (op, i, oc.dpid, oc.stage, d, sorted(c.idx for c in self.ref.live_up(d)), self.prev_reg.get(d)))
        continue
      ok.add(d)
    self.prev_reg = real
    return want, real, ok

  def check_views (self, i, op, real):
    """Every public view of the registry must show what items() shows (which check_registry compared
    with the reference): iteration, len, membership by dpid and by connection, keys(), values(),
    .dpids, iter_dpids(), [dpid], getConnection(dpid).  All are read after every step."""
    nx = self.st.nexus; cd = nx.connections
    slot = lambda c: self.slot_of.get(self.st.cons.index(c)) if c in self.st.cons else "?"
    want_d = sorted(real); want_c = sorted(real.values(), key=repr)
    views = []
    def view (name, fn, want):
      self.transitions += 1
      try: got = fn()
      except Exception as e: got = "raised %s: %s" % (type(e).__name__, e)
      views.append((name, got, want))
    view("getConnection", lambda: {d: (lambda c: None if c is None else slot(c))(nx.getConnection(d)) for d in DPIDS_ALL},
         {d: real.get(d) for d in DPIDS_ALL})
    view("getitem", lambda: {d: (slot(cd[d]) if d in real else "KeyError") for d in DPIDS_ALL} if all(self._getitem_ok(cd, d, d in real) for d in DPIDS_ALL) else "wrong KeyError behaviour",
         {d: (real[d] if d in real else "KeyError") for d in DPIDS_ALL})
    view("contains-dpid", lambda: sorted(d for d in DPIDS_ALL if d in cd), want_d)
    view("contains-connection", lambda: sorted((s for s, k in self.cidx.items() if self.st.cons[k] in cd), key=repr), want_c)
    view("keys", lambda: sorted(cd.keys()), want_d)
    view("values", lambda: sorted((slot(c) for c in cd.values()), key=repr), want_c)
    view("iteration", lambda: sorted((slot(c) for c in cd), key=repr), want_c)
    view("len", lambda: len(cd), len(real))
    view("dpids", lambda: sorted(cd.dpids), want_d)
    view("iter_dpids", lambda: sorted(cd.iter_dpids()), want_d)
    for name, got, want in views:
      if got != want:
        # one defect, one key: only the first disagreeing view is reported
        self.fail("registry:view-disagrees:%s" % name,
                  "after %s(%d): nexus.connections %s shows %r but the registry's items() (and the reference) say %r"
                  % (op, i, name, got, want))
        break
    return [(n, g) for n, g, w in views if g != w]

  @staticmethod
  def _getitem_ok (cd, d, present):
    try: cd[d]; return present
    except KeyError: return not present

  def probe (self, want, ok):
    """sendToDPID for every datapath id; where did the bytes go?"""
    res = []
    for d in DPIDS_ALL:
      self.probe_n += 1
      data = W.barrier_request(0x0c090000 + self.probe_n)
      r = self.guarded("sendToDPID", self.st.nexus.sendToDPID, d, data)
      got = {}
      for s, k in self.cidx.items():
        t = self.st.take_tx(k)
        if t: got[s] = t
      res.append((d, bool(r), sorted(got)))
      if d not in ok: continue            # registry already reported
      if d in want:
        if not r: self.fail("sendToDPID:refused-for-reachable-dpid", "sendToDPID(%d) returned %r although connection %r is registered and live" % (d, r, sorted(want[d])))
        elif len(got) != 1 or list(got)[0] not in want[d] or list(got.values())[0] != data:
          self.fail("sendToDPID:bytes-not-on-live-connection", "sendToDPID(%d) returned True; bytes appeared on connections %r, expected exactly the message on one of %r"
                    % (d, sorted(got), sorted(want[d])))
      else:
        if r: self.fail("sendToDPID:accepted-for-unreachable-dpid", "sendToDPID(%d) returned %r but no live fully handshaken connection exists" % (d, r))
        if got: self.fail("sendToDPID:bytes-written-for-unreachable-dpid", "sendToDPID(%d) wrote to connections %r" % (d, sorted(got)))
    return res

  def check (self, i, op, obs):
    ev = self.collect(i)
    for j in sorted(self.nlog):
      self.check_events(j, "nexus", self.nlog[j])
      self.check_events(j, "connection", self.clog[j])
    want, real, ok = self.check_registry(i, op)
    self.check_views(i, op, real)
    pr = self.probe(want, ok)
    self.lines.append("  events %s; registry %r; sendToDPID %r" % (ev, real, pr))
    for k, what in self.bad[self.shown:]:
      self.lines.append("  VIOLATED %s: %s" % (k, what))
    self.shown = len(self.bad)
    self.acted = set()
    self.tag = ""
    return (op, tuple(ev), tuple(sorted(real.items())), tuple((d, r, tuple(g)) for d, r, g in pr), repr(obs))

  # ---- canonical state (part c) ------------------------------------------------
  def key (self, pos):
    cons = []
    for i in range(len(self.dpids)):
      if i not in self.cidx: cons.append(None); continue
      c = self.con(i); p = self.peers[i]
      hs = getattr(c.handlers[W.HELLO], "__self__", None)
      dps = c._deferred_port_status
      cons.append((pos[i], c.dpid, c.disconnected, c.disconnection_raised, c.connect_time is None,
                   None if dps is None else len(dps), c.handlers is self.of01._default_handlers.handlers,
                   getattr(hs, "_features_request_sent", None), getattr(hs, "_barrier", None) is not None,
                   c.ofnexus is self.st.nexus, len(c.buf), c.sock.shut, c.sock.closed,
                   p.features_xid is not None, p.barrier_xid is not None,
                   tuple(self.nlog[i]), tuple(self.clog[i])))
    return (tuple(cons), tuple(sorted(self.real_registry().items())), self.ref.key())


# =============================================================================
# parts (a) and (b): handshake scripts
# =============================================================================
def gen_scripts (kinds, kmax):
  """Every placement of <= kmax asynchronous messages (ordered) into the NSLOT positions."""
  out = []
  def rec (prefix, minslot, k):
    out.append(prefix)
    if k == 0: return
    for s in range(minslot, NSLOT):
      for kd in kinds:
        rec(prefix + ((s, kd),), s, k - 1)
  rec((), 0, kmax)
  return out


def chunkings (asyncs, last):
  """The script as recv() chunks, for each segmentation mode.  Items are (kind, serial);
  handshake items have serial 0."""
  hs = HS + (last,)
  slots = [[] for _ in range(NSLOT)]
  for n, (s, kd) in enumerate(asyncs): slots[s].append((kd, n + 1))
  flat = []
  for s in range(NSLOT):
    flat.extend(slots[s])
    if s < len(hs): flat.append((hs[s], 0))
  modes = {}
  modes["sep"] = tuple((x,) for x in flat)
  before = []
  for s in range(NSLOT):
    ch = list(slots[s])
    if s < len(hs): ch.append((hs[s], 0))
    if ch: before.append(tuple(ch))
  modes["glue-before"] = tuple(before)
  after = []
  if slots[0]: after.append(tuple(slots[0]))
  for s in range(len(hs)):
    after.append(tuple([(hs[s], 0)] + slots[s + 1]))
  modes["glue-after"] = tuple(after)
  seen = set(); out = []
  for m in ("sep", "glue-before", "glue-after"):
    if modes[m] in seen: continue
    seen.add(modes[m]); out.append((m, modes[m]))
  return out


def run_script (chunks, loss, dpid=1, ret=None, opts=None):
  """Execute one script on a fresh world.  loss: None | ('close', p) close after p messages |
  ('epipe', c, drain) first send during chunk c fails, then (optionally the rest, then) close."""
  w = World([dpid], ret=ret, opts=opts)
  outs = []
  stalled = None
  try:
    outs.append(w.open(0))
    if w.bad: raise Stop()
    left = loss[1] if loss and loss[0] == "close" else None
    done = False
    for cn, ch in enumerate(chunks):
      items = list(ch)
      if left is not None:
        items = items[:left]; left -= len(items)
      # a faithful switch cannot answer a request it did not receive
      usable = []
      for k, s in items:
        if k in L.HS_KINDS and not w.peers[0].can(k):
          if k == "desc": continue      # the description request is optional
          stalled = k; break
        usable.append((k, s))
      if usable:
        fail = bool(loss and loss[0] == "epipe" and loss[1] == cn)
        outs.append(w.deliver(0, usable, fail=fail))
        if w.bad: raise Stop()
        if w.ref.cons[0].closed: done = True; break
        if fail and not loss[2]: break
      if stalled or (left is not None and left <= 0): break
    if loss is None and not done:
      c = w.ref.cons[0]
      if stalled and c.live:
        w.fail("handshake:stalled:no-%s-request" % {"features": "features", "barrier": "barrier", "barrier-unsup": "barrier"}.get(stalled, stalled),
               "the switch never received the request it has to answer with '%s' (controller wrote %r): ConnectionUp can never be raised" % (stalled, w.peers[0].got))
        w.lines.append("  VIOLATED %s: %s" % w.bad[-1])
    if loss is not None and not done and not w.ref.cons[0].closed:
      outs.append(w.close(0))
  except Stop:
    pass
  finally:
    w.dispose()
  return w, outs


def _ab_worker (item):
  from mc.env import boot
  boot()
  scripts, lasts, with_b = item
  rep = Report(PID, "model_checking")
  for asyncs in scripts:
    for last in lasts:
      for mode, chunks in chunkings(asyncs, last):
        nmsg = sum(len(c) for c in chunks)
        cases = [None]
        if with_b:
          cases += [("close", p) for p in range(nmsg + 1)]
          for c in range(len(chunks)):
            # a chunk that makes no controller write cannot meet the fault: the case would repeat ('close', p)
            if not any(k in L.SENDS_IN_HANDSHAKE for k, s in chunks[c]): continue
            cases.append(("epipe", c, False)); cases.append(("epipe", c, True))
        for loss in cases:
          w, outs = run_script(chunks, loss)
          rep.evaluations += 1
          rep.transitions += w.transitions
          rep.outcome((loss and loss[0], tuple(outs)))
          data = dict(part="ab", asyncs=[list(x) for x in asyncs], last=last, mode=mode, loss=list(loss) if loss else None)
          for k, what in w.bad:
            rep.violation(k, what, data)
          if w.read_exceptions:
            rep.extra["read_exceptions_contained_by_io_loop"] = rep.extra.get("read_exceptions_contained_by_io_loop", 0) + len(w.read_exceptions)
            rep.extra.setdefault("read_exception_example", dict(case=data, raised=w.read_exceptions[0]))
          if not w.bad and (rep.evaluations % 4001 == 7):
            rep.sample(dict(case=data, trace=w.lines))
  return rep


# =============================================================================
# part (c): histories over 3 connections / 2 datapath ids
# =============================================================================
def c_script (i):
  last = "barrier-unsup" if i == 1 else "barrier"
  return ((("hello", 0),), (("features", 0), ("ps-add", 1)), ((last, 0),), (("ps-mod", 2),))


def j_script (i):
  """The part (c) script up to connection-up, then handshake messages AGAIN on the announced connection: a features
  request goes out after the handshake (connection 1: an application sends one; the others: the switch sends a second
  hello, which the controller answers with a features request), the switch answers it with a second features reply
  (+ a port-status in the same read), then one more port-status."""
  again = (("app-features-request", 0),) if i == 1 else (("hello", 0),)
  return c_script(i)[:3] + (again, (("features-again", 0), ("ps-add", 3)), (("ps-mod", 4),))


SCRIPTS = {"c": c_script, "j": j_script}
J_DEPTH = {False: 7, True: 10}


class CWorld (object):
  def __init__ (self, dpids, spec=None, ret=None, opts=None, script="c"):
    self.w = World(dpids, spec, ret=ret, opts=opts)
    self.n = len(dpids)
    self.pos = [0] * self.n
    self.script = SCRIPTS[script]

  def next_chunk (self, i):
    sc = self.script(i)
    if self.pos[i] >= len(sc): return None
    ch = sc[self.pos[i]]
    if not self.w.peers[i].can(ch[0][0]): return None
    return ch

  def ops (self):
    w = self.w; o = []
    for i in range(self.n):
      if i not in w.cidx:
        o.append(("open", i)); continue
      c = w.ref.cons[i]
      if c.closed: continue
      ch = self.next_chunk(i)
      if ch is not None: o.append(("deliver", i))
      if ch is not None and ch[0][0] == "app-features-request" and not c.live:
        o.pop()           # an application does not write to a connection it knows is gone
        ch = None
      if c.live:
        if c.completed: o.append(("send-error", i))
        elif ch is not None and any(w.ref.makes_controller_send(i, k) for k, s in ch): o.append(("send-error", i))
      o.append(("close", i))
    return o

  def apply (self, op):
    out = self._apply(op)
    self.check_stall()
    return out

  def check_stall (self):
    """A live connection whose switch is waiting for a request the controller never wrote can never be
    announced (the faithful switch cannot answer a request it did not receive)."""
    w = self.w
    for i in sorted(w.cidx):
      c = w.ref.cons[i]; sc = self.script(i)
      if not c.live or c.closed or self.pos[i] >= len(sc): continue
      k = sc[self.pos[i]][0][0]
      if k in L.HS_KINDS and not w.peers[i].can(k):
        n0 = len(w.bad)
        w.fail("handshake:stalled:no-%s-request" % {"barrier-unsup": "barrier"}.get(k, k),
               "connection %d: the switch never received the request it has to answer with '%s' (controller wrote %r): ConnectionUp can never be raised" % (i, k, w.peers[i].got))
        if len(w.bad) > n0: w.lines.append("  VIOLATED %s: %s" % w.bad[-1]); w.shown = len(w.bad)

  def _apply (self, op):
    w = self.w; w.bad = []; w.shown = 0
    kind, i = op
    if op not in self.ops(): raise KeyError(op)
    try:
      if kind == "open": return w.open(i)
      if kind == "close": return w.close(i)
      if kind == "deliver":
        ch = self.next_chunk(i); self.pos[i] += 1
        if ch[0][0] == "app-features-request": return w.app_request_features(i)
        return w.deliver(i, list(ch))
      if kind == "send-error":
        if w.ref.cons[i].completed: return w.app_send_fail(i)
        ch = self.next_chunk(i); self.pos[i] += 1
        return w.deliver(i, list(ch), fail=True)
    except Stop:
      return ("stopped",)

  def key (self):
    return self.w.key(self.pos)


def make_expand (dpids, root, script="c"):
  def expand (h):
    cw = CWorld(dpids, script=script)
    try:
      out = None
      for op in root: cw.apply(op)
      if cw.w.bad and not h:
        return dict(key=("bad-root",), ops=[], bad=[], out=None)
      for op in h: out = cw.apply(op)
      return dict(key=cw.key(), ops=cw.ops() if not cw.w.bad else [], bad=list(cw.w.bad) if h else [], out=out,
                  replay_extra=dict(part="c", dpids=list(dpids), root=[list(o) for o in root], script=script))
    finally:
      cw.w.dispose()
  return expand


# =============================================================================
# part (d): every merge order of n complete handshakes on ONE datapath id
# =============================================================================
def merges (n, per=3):
  """All interleavings of n sequences of `per` deliveries (as tuples of connection indices)."""
  out = []
  def rec (prefix, left):
    if not any(left): out.append(prefix); return
    for i in range(n):
      if left[i]:
        l2 = list(left); l2[i] -= 1
        rec(prefix + (i,), l2)
  rec((), [per] * n)
  return out


def close_tails (n, maxlen):
  out = [()]
  if maxlen >= 1: out += [(i,) for i in range(n)]
  if maxlen >= 2: out += [(i, j) for i in range(n) for j in range(n) if i != j]
  return out


def run_merge (n, order, closes):
  """n connections of datapath 1 accepted in index order; their handshake deliveries ([hello]
  [features reply + port-status][barrier reply | barrier-unsupported]) merged as `order`; then closes."""
  cw = CWorld((1,) * n)
  outs = []; bad = []
  try:
    ops = [("open", i) for i in range(n)] + [("deliver", i) for i in order] + [("close", i) for i in closes]
    for op in ops:
      outs.append(cw.apply(op))
      if cw.w.bad: bad = list(cw.w.bad); break
  finally:
    cw.w.dispose()
  return cw.w, outs, bad


def _d_worker (item):
  from mc.env import boot
  boot()
  rep = Report(PID, "model_checking")
  for n, order, tails in item:
    for closes in tails:
      w, outs, bad = run_merge(n, order, closes)
      rep.evaluations += 1
      rep.transitions += w.transitions
      rep.outcome(("merge", tuple(outs)))
      data = dict(part="d", n=n, order=list(order), closes=list(closes))
      for k, what in bad: rep.violation(k, what, data)
      if not bad and rep.evaluations % 997 == 3: rep.sample(dict(case=data, trace=w.lines))
      if bad and closes == (): break      # the merge itself already violates: tails add nothing
  return rep


# =============================================================================
# part (e): the REAL OpenFlow_01_Task.run loop, handshake / life-cycle streams under segmentations
# =============================================================================
_FAULT_CLASSES = {}
def fault_classes ():
  """The scripted socket / listener of mc.props.c10 with scripted FAULTS: recv() raising a given exception once the
  queued bytes are used up, accept() raising a queued exception instead of handing out a socket."""
  if not _FAULT_CLASSES:
    from mc.props.c10 import CSock, FakeListener
    class FSock (CSock):
      recv_exc = None
      def recv (self, n, flags=0):
        if self.recv_exc is not None and not self.closed and not self.rd_shut and not self.rx: raise self.recv_exc
        return CSock.recv(self, n, flags)
    class FListener (FakeListener):
      def accept (self):
        s = self.q.pop(0)
        if isinstance(s, BaseException): raise s
        return (s, s.name)
    _FAULT_CLASSES.update(sock=FSock, listener=FListener)
  return _FAULT_CLASSES


def os_error (name):
  """The exception the socket layer raises for an errno (Python picks the OSError subclass, if the errno has one)."""
  import errno as E
  if name == "socket.timeout":
    import socket
    return socket.timeout("timed out")
  return OSError(getattr(E, name), os.strerror(getattr(E, name)))


class TaskWorld (World):
  """World whose I/O loop is the real OpenFlow_01_Task.run generator (driver pieces shared with
  mc.props.c10): a fake `socket` module hands out a scripted listener, every yielded Select is answered
  honestly (a connection is readable iff its scripted non-blocking socket has pending bytes, saw EOF
  or was shut down), so read() is only ever called with bytes pending - like after a real select - and
  a connection the loop closes is noticed because it leaves the select set."""
  loop = "task"

  def __init__ (self, dpids):
    World.__init__(self, dpids)
    from mc.props.c10 import FakeSocketModule
    self.CSock = fault_classes()["sock"]
    of01 = self.of01
    self.st.core.running = True
    self.lst = fault_classes()["listener"]()
    self.fault_tag = ""
    self._old_socket = of01.socket
    of01.socket = FakeSocketModule(self.lst)
    task = object.__new__(of01.OpenFlow_01_Task)      # no core listener, no Task bookkeeping
    task.port = 6633; task.address = "0.0.0.0"; task.started = True
    task.ssl_key = task.ssl_cert = task.ssl_ca_cert = None
    self.g = task.run()
    self.sel = None
    self.step([])

  def dispose (self):
    try:
      self.st.core.running = False
      self.g.close()
    except BaseException:
      pass
    finally:
      self.st.core.running = True
      self.of01.socket = self._old_socket
    World.dispose(self)

  def rlist (self):
    return self.sel._args[0]

  def step (self, r, x=()):
    self.transitions += 1
    if self.sel is not None and any(x.fileno() < 0 for x in self.rlist()):
      self.fail("loop:closed-socket-left-in-select-set", "the loop selects on a closed socket (select raises ValueError, the select hub dies)")
      raise Stop()
    try:
      if self.sel is None: self.sel = next(self.g)
      else: self.sel = self.g.send((list(r), [], list(x)))
    except StopIteration:
      self.fail("loop:ended" + self.fault_tag, "OpenFlow_01_Task.run returned%s: no connection is served any more (losses go unnoticed, no switch can reconnect)"
                % (" " + self.fault_tag.strip(":").replace("-", " ") if self.fault_tag else ""))
      self.lines.append("  VIOLATED %s: %s" % self.bad[-1]); self.shown = len(self.bad)
      raise Stop()
    except Exception as e:
      self.fail("loop:died:%s:%s" % (pox_site(sys.exc_info()[2]), type(e).__name__), "OpenFlow_01_Task.run raised %s: %s%s: no connection is served any more"
                % (type(e).__name__, e, " " + self.fault_tag.strip(":").replace("-", " ") if self.fault_tag else ""))
      self.lines.append("  VIOLATED %s: %s" % self.bad[-1]); self.shown = len(self.bad)
      raise Stop()

  _preset = None
  def _accept (self, i):
    s = self._preset or self.CSock(("switch", 100 + i))
    self.lst.q.append(s)
    before = set(id(x) for x in self.rlist())
    self.step([self.lst])
    new = [x for x in self.rlist() if id(x) not in before and x is not self.lst]
    if len(new) != 1:
      self.fail("loop:accept", "accepting a connection added %d objects to the select set" % len(new)); raise Stop()
    self.st.cons.append(new[0])

  # ---- faults (part l) -----------------------------------------------------------
  def open_hello_fails (self, i):
    """Connection i is accepted but the peer is already gone: the controller's hello meets EPIPE."""
    s = self.CSock(("switch", 100 + i)); s.send_script = ["epipe"]
    self._preset = s
    try: out = self.open(i)
    finally: self._preset = None
    self.ref.lost(i)
    self.lines.append("  (the hello written to connection %d was answered by EPIPE)" % i)
    if self.serve(i):
      self.fail("loop:lost-connection-left-in-select-set", "connection %d was given up by the controller (send failed) but stays in the select set" % i); raise Stop()
    self.ref.closed(i)
    return out, self.check(i, "close", "after failed hello")

  def fault_recv (self, i, name):
    """select reports connection i readable; recv() raises."""
    con = self.con(i)
    con.sock.recv_exc = os_error(name)
    self.lines.append("recv-error(%d): recv() on connection %d raises %s" % (i, i, type(con.sock.recv_exc).__name__ + "(" + name + ")"))
    self.fault_tag = ":after-recv-error"
    self.step([con])
    self.fault_tag = ""
    if con in self.rlist():
      self.fail("loop:recv-error-ignored", "recv() on connection %d raised %s but the connection stays in the select set" % (i, name)); raise Stop()
    self.ref.closed(i)
    return self.check(i, "close", "recv " + name)

  def fault_exceptional (self, i):
    """select reports an exceptional condition on connection i."""
    con = self.con(i)
    self.lines.append("exceptional(%d): select reports connection %d in its exceptional set" % (i, i))
    self.fault_tag = ":after-exceptional-condition"
    self.step([], [con])
    self.fault_tag = ""
    if con in self.rlist():
      self.fail("loop:exceptional-condition-ignored", "select reported connection %d in the exceptional set but it stays in the select set" % i); raise Stop()
    self.ref.closed(i)
    return self.check(i, "close", "exceptional")

  def fault_accept (self, name):
    """select reports the listener readable; accept() raises (the connection attempt failed or the process is
    momentarily out of resources).  Nothing happened to any existing connection."""
    before = [id(x) for x in self.rlist()]
    self.lst.q.append(os_error(name))
    self.lines.append("accept-error: accept() raises %s" % (type(self.lst.q[-1]).__name__ + "(" + name + ")"))
    self.fault_tag = ":after-accept-error"
    self.step([self.lst])
    self.fault_tag = ""
    if [id(x) for x in self.rlist()] != before:
      self.fail("loop:accept-error:select-set-changed", "after accept() raised %s the loop selects on %d objects instead of %d (listener still in: %s)"
                % (name, len(self.rlist()), len(before), self.lst in self.rlist())); raise Stop()
    i = sorted(self.cidx)[0] if self.cidx else None
    if i is None: return ("accept-error", name)
    return self.check(i, "accept-error", name)

  def serve (self, i):
    """Answer selects until connection i has nothing pending or has left the select set."""
    con = self.con(i); sock = con.sock
    for n in range(64):
      if con not in self.rlist(): return False
      if not (sock.rx or sock.eof or sock.rd_shut): return True
      self.step([con])
    self.fail("loop:livelock", "connection %d is still readable after 64 select rounds" % i)
    raise Stop()

  def _feed (self, i, data, cuts):
    sock = self.con(i).sock
    offs = [0] + [c for c in cuts if 0 < c < len(data)] + [len(data)]
    for a, b in zip(offs, offs[1:]):
      if b <= a: continue
      sock.rx.append(bytes(data[a:b]))      # what is pending when select reports the socket readable
      if not self.serve(i): return False
    return True

  def close (self, i):
    """The switch closes the connection: recv() returns b'' and the loop closes its side."""
    self.con(i).sock.eof = True
    if self.serve(i):
      self.fail("loop:eof-ignored", "connection %d hit end-of-stream but stays in the select set" % i); raise Stop()
    self.ref.closed(i)
    self.lines.append("eof(%d): the switch closed the connection, the loop closed its side" % i)
    return self.check(i, "close", None)


_LEN = {}
def item_len (kind, serial=0, nports=2):
  """Length in bytes of a scripted message (does not depend on xids)."""
  k = (kind, serial if kind == "echo-pad" else 0, nports if kind == "features" else 0)
  if k not in _LEN:
    p = L.Peer(1); p.features_xid = p.desc_xid = p.barrier_xid = 0; p.barrier_raw = W.barrier_request(0)
    p.ports = tuple(range(1, nports + 1))
    _LEN[k] = len(p.build(kind, serial))
  return _LEN[k]


def e_chunks (last, tail):
  c1 = [("features", 0)]
  if tail == "ps": c1.append(("ps-add", 1))
  elif isinstance(tail, int): c1.append(("echo-pad", tail))
  return [[("hello", 0)], c1, [("desc", 0)], [(last, 0)], [("ps-mod", 2), ("echo", 3)]]


def gen_e_cases (thorough):
  """(pre, nports, last, tail, {chunk index: cuts})"""
  cases = []
  for pre in (False, True):
    for last in ("barrier", "barrier-unsup"):
      # 1. every message of the stream split in two (quick: boundary offsets; thorough: every offset)
      ch = e_chunks(last, "ps")
      cases.append((pre, 2, last, "ps", {}))
      for ci, items in enumerate(ch):
        lens = [item_len(k, s) for k, s in items]
        tot = sum(lens)
        if thorough: offs = range(1, tot)
        else:
          offs = set([1, 4, 7, 8, 9, 12, tot // 2, tot - 8, tot - 1])
          acc = 0
          for l in lens[:-1]:
            acc += l; offs |= set([acc - 1, acc, acc + 1, acc + 4, acc + 8])
          offs = sorted(o for o in offs if 0 < o < tot)
        for o in offs: cases.append((pre, 2, last, "ps", {ci: (o,)}))
        if tot <= 20:        # short messages: every way to cut them twice, and a cut in every chunk at once
          for a in range(1, tot):
            for b in range(a + 1, tot): cases.append((pre, 2, last, "ps", {ci: (a, b)}))
      cases.append((pre, 2, last, "ps", {0: (4,), 1: (100,), 2: (8,), 3: (4,), 4: (70,)}))
      # 2. read-size boundaries: the features reply of an n-port switch is 32 + 48 n bytes
      for nports, pads in ((41, (40,)), (42, ()), (43, ()), (84, (24,)), (85, ()), (86, ())):
        for tail in (None, "ps") + pads:
          tot = sum(item_len(k, s, nports) for k, s in e_chunks(last, tail)[1])
          cases.append((pre, nports, last, tail, {}))
          for P in (2047, 2048, 2049, 4095, 4096, 4097):
            if P < tot: cases.append((pre, nports, last, tail, {1: (P,)}))
  return cases


def run_task_case (case):
  pre, nports, last, tail, cutmap = case
  cutmap = {int(k): tuple(v) for k, v in cutmap.items()}
  w = TaskWorld([1, 1])
  outs = []
  try:
    try:
      if pre:
        # connection 0 of the same datapath is already announced (whole messages)
        outs.append(w.open(0))
        for items in e_chunks("barrier", "ps")[:4]:
          if w.bad: raise Stop()
          outs.append(w.deliver(0, items))
      if w.bad: raise Stop()
      outs.append(w.open(1))
      w.peers[1].ports = tuple(range(1, nports + 1))
      for ci, items in enumerate(e_chunks(last, tail)):
        if w.bad: raise Stop()
        if not all(w.peers[1].can(k) for k, s in items):
          w.fail("handshake:stalled:no-%s-request" % items[0][0], "the switch never received the request it has to answer with '%s' (controller wrote %r)" % (items[0][0], w.peers[1].got))
          raise Stop()
        outs.append(w.deliver(1, items, cuts=cutmap.get(ci, ())))
      if w.bad: raise Stop()
      if pre:
        outs.append(w.close(0))         # the older connection goes first (the other order is the known no-fallback shape)
        if w.bad: raise Stop()
      outs.append(w.close(1))
    except Stop:
      pass
  finally:
    w.dispose()
  return w, outs


def _e_worker (cases):
  from mc.env import boot
  boot()
  rep = Report(PID, "model_checking")
  for case in cases:
    w, outs = run_task_case(case)
    rep.evaluations += 1
    rep.transitions += w.transitions
    rep.outcome(("task", tuple(outs)))
    data = dict(part="e", pre=case[0], nports=case[1], last=case[2], tail=case[3], cuts={str(k): list(v) for k, v in case[4].items()})
    for k, what in w.bad: rep.violation(k, what, data)
    if not w.bad and rep.evaluations % 97 == 5: rep.sample(dict(case=data, trace=w.lines))
  return rep


# =============================================================================
# part (l): faults of the real loop - recv() raising, exceptional condition, accept() raising, hello meeting EPIPE
# =============================================================================
# what recv() raises on a TCP connection that is lost (reset, keep-alive / retransmission time-out, ICMP unreachable, ...)
RECV_ERRORS = ("ECONNRESET", "ETIMEDOUT", "EHOSTUNREACH", "ENETUNREACH", "ENETDOWN", "ECONNABORTED", "EPIPE", "ENOTCONN", "socket.timeout")
# accept(2): the connection attempt failed / was withdrawn, or the process is momentarily out of resources; the listening
# socket stays usable after every one of them
ACCEPT_ERRORS = ("ECONNABORTED", "ECONNRESET", "EAGAIN", "EPROTO", "EHOSTUNREACH", "ENETUNREACH", "ENETDOWN", "ETIMEDOUT",
                 "EMFILE", "ENFILE", "ENOBUFS", "ENOMEM")

def gen_l_cases (thorough):
  """(pre, last, p, fault): connection 1 goes through [accept][hello][features reply + port-status][desc][barrier reply |
  unsupported][port-status + echo request]; the fault happens after p of these 6 steps; fault = ('recv', target, errno) |
  ('exceptional', target) | ('accept', errno) | ('hello-epipe',).  pre: 0, or the datapath id (1 = the same, 2 = another)
  of a connection 0 that is announced before.  Afterwards connection 2 of the same datapath connects and completes its handshake (a reconnect), and
  every connection still open reaches end-of-stream."""
  cases = []
  for pre in (0, 1, 2):
    for last in ("barrier", "barrier-unsup"):
      for p in range(7):
        targets = ([1] if p >= 1 else []) + ([0] if pre else [])
        for t in targets:
          for e in RECV_ERRORS: cases.append((pre, last, p, ("recv", t, e)))
          cases.append((pre, last, p, ("exceptional", t)))
        for e in ACCEPT_ERRORS: cases.append((pre, last, p, ("accept", e)))
        cases.append((pre, last, p, ("hello-epipe",)))
  return cases


def run_fault_case (case):
  pre, last, p, fault = case
  fault = tuple(fault)
  w = TaskWorld([pre or 1, 1, 1, 1])
  outs = []
  def handshake (i, chunks):
    for items in chunks:
      if w.bad: raise Stop()
      if w.ref.cons[i].closed: return
      if not all(w.peers[i].can(k) for k, s in items):
        w.fail("handshake:stalled:no-%s-request" % items[0][0], "the switch never received the request it has to answer with '%s' (controller wrote %r)" % (items[0][0], w.peers[i].got))
        raise Stop()
      outs.append(w.deliver(i, items))
  def do_fault ():
    if fault[0] == "recv": outs.append(w.fault_recv(fault[1], fault[2]))
    elif fault[0] == "exceptional": outs.append(w.fault_exceptional(fault[1]))
    elif fault[0] == "accept": outs.append(w.fault_accept(fault[1]))
    else: outs.extend(w.open_hello_fails(3))
    if w.bad: raise Stop()
  try:
    try:
      if pre:
        outs.append(w.open(0))
        handshake(0, e_chunks("barrier", "ps")[:4])
      if w.bad: raise Stop()
      steps = [None] + e_chunks(last, "ps")
      for n, items in enumerate(steps):
        if n == p: do_fault()
        if items is None: outs.append(w.open(1))
        elif not w.ref.cons[1].closed: handshake(1, [items])
        if w.bad: raise Stop()
      if p == len(steps): do_fault()
      # a reconnect of the same datapath, then every connection reaches end-of-stream (oldest first)
      outs.append(w.open(2))
      handshake(2, e_chunks("barrier", None)[:4])
      for i in (0, 1, 2):
        if w.bad: raise Stop()
        if i in w.cidx and not w.ref.cons[i].closed: outs.append(w.close(i))
    except Stop:
      pass
  finally:
    w.dispose()
  return w, outs


def _l_worker (cases):
  from mc.env import boot
  boot()
  rep = Report(PID, "model_checking")
  for case in cases:
    w, outs = run_fault_case(case)
    rep.evaluations += 1
    rep.transitions += w.transitions
    rep.outcome(("loop-fault", case[3][0], tuple(outs)))
    data = dict(part="l", case=_jsonable(case))
    for k, what in w.bad: rep.violation(k, what, data)
    if not w.bad and rep.evaluations % 97 == 5: rep.sample(dict(case=data, trace=w.lines))
  return rep


# =============================================================================
# part (f): application listeners that act on a connection DURING the delivery of its life-cycle events
# =============================================================================
F_EVENTS = ("ConnectionUp", "ConnectionDown", "PortStatus")
# every event class raised while a connection comes up / carries port-status / goes down, on each source that raises it
F_SOURCES = (("nexus", "ConnectionHandshakeComplete"), ("nexus", "ConnectionUp"), ("nexus", "FeaturesReceived"), ("nexus", "PortStatus"),
             ("nexus", "ConnectionDown"), ("connection", "ConnectionUp"), ("connection", "FeaturesReceived"), ("connection", "PortStatus"),
             ("connection", "ConnectionDown"))

def gen_specs ():
  """(where, event, action, target, mode).  close/disconnect: a listener that acts once per connection
  and one that acts every time it is called; target 'older' = the connection of the same datapath the
  application saw come up before the event's connection (sendToDPID addresses the datapath: self only)."""
  out = []
  for where, ev in F_SOURCES:
      for target in ("self", "older"):
        for action, modes in (("close", ("once", "always")), ("disconnect", ("once", "always")), ("send-epipe", ("always",)),
                              ("sendToDPID", ("always",)), ("raise", ("always",))):
          if action in ("sendToDPID", "raise") and target != "self": continue
          for mode in modes: out.append((where, ev, action, target, mode))
  return out


def f_histories (thorough):
  """Operation sequences (CWorld ops; an operation that is no longer possible is skipped).
  one connection: every prefix of the script, then [send-error], close - for each barrier flavour;
  two connections of one datapath: every merge order of their handshake deliveries, the remaining
  deliveries, then both closes in both orders."""
  one = []
  for i in (0, 1):
    for k in range(5):
      for se in (False, True):
        one.append((("open", i),) + (("deliver", i),) * k + ((("send-error", i),) if se else ()) + (("close", i),))
  two = []
  per = 4 if thorough else 3
  for order in merges(2, per):
    rest = tuple(("deliver", i) for i in (0, 1) for _ in range(4 - per))
    for tail in ((0, 1), (1, 0)):
      two.append((("open", 0), ("open", 1)) + tuple(("deliver", i) for i in order) + rest + tuple(("close", i) for i in tail))
  return one, two


def run_listener_case (spec, ops, ret=None, opts=None):
  cw = CWorld((1, 1), tuple(spec) if spec else None, ret=ret, opts=opts)
  outs = []; bad = []
  try:
    for op in ops:
      op = tuple(op)
      if op not in cw.ops(): continue
      outs.append(cw.apply(op))
      for b in cw.w.bad:
        if not any(b[0] == x[0] for x in bad): bad.append(b)
      if outs[-1] == ("stopped",): break
  finally:
    cw.w.dispose()
  return cw.w, outs, bad


def _f_worker (item):
  from mc.env import boot
  boot()
  rep = Report(PID, "model_checking")
  for spec, ops in item:
    w, outs, bad = run_listener_case(spec, ops)
    rep.evaluations += 1
    rep.transitions += w.transitions
    rep.outcome(("listener", spec, tuple(outs), w.fires))
    rep.extra["listener_actions"] = rep.extra.get("listener_actions", 0) + w.fires
    data = dict(part="f", spec=list(spec), ops=[list(o) for o in ops])
    for k, what in bad: rep.violation(k, what, data)
    if not bad and w.fires and rep.evaluations % 97 == 5: rep.sample(dict(case=data, trace=w.lines))
  return rep


# =============================================================================
# part (g): overlapping handshakes of two connections, asynchronous messages at every position of both
# =============================================================================
G_HS = ("hello", "features")

def g_scripts (slot, kinds, kmax=1):
  """Scripts of one connection: [hello, features reply, barrier reply | unsupported] (one message per
  recv) with <= kmax asynchronous messages at every position.  Serial numbers are unique per slot."""
  last = "barrier-unsup" if slot == 1 else "barrier"
  hs = G_HS + (last,)
  out = []
  for asyncs in gen_scripts_n(kinds, kmax, len(hs) + 1):
    slots = [[] for _ in range(len(hs) + 1)]
    for n, (p, kd) in enumerate(asyncs): slots[p].append((kd, 100 * (slot + 1) + n + 1))
    flat = []
    for p in range(len(hs) + 1):
      flat.extend(slots[p])
      if p < len(hs): flat.append((hs[p], 0))
    out.append(tuple(flat))
  return out


def gen_scripts_n (kinds, kmax, nslot):
  out = []
  def rec (prefix, minslot, k):
    out.append(prefix)
    if k == 0: return
    for s in range(minslot, nslot):
      for kd in kinds:
        rec(prefix + ((s, kd),), s, k - 1)
  rec((), 0, kmax)
  return out


def merges2 (a, b):
  """All interleavings of a steps of connection 0 with b steps of connection 1."""
  out = []
  def rec (prefix, x, y):
    if x == 0 and y == 0: out.append(prefix); return
    if x: rec(prefix + (0,), x - 1, y)
    if y: rec(prefix + (1,), x, y - 1)
  rec((), a, b)
  return out


def run_overlap (dpids, scripts, order):
  """Both connections accepted (index order); then their scripts merged as `order`.  A script item is a
  (kind, serial) message delivered in a recv of its own, or ("close", 0): the I/O loop closes it."""
  w = World(list(dpids))
  outs = []
  pos = [0] * len(scripts)
  try:
    for i in range(len(scripts)):
      outs.append(w.open(i))
      if w.bad: raise Stop()
    for i in order:
      k, s = scripts[i][pos[i]]; pos[i] += 1
      c = w.ref.cons[i]
      if c.closed: continue
      if k == "close":
        outs.append(w.close(i))
      else:
        if k in L.HS_KINDS and not w.peers[i].can(k):
          if c.live:
            w.fail("handshake:stalled:no-%s-request" % {"barrier-unsup": "barrier"}.get(k, k),
                   "connection %d: the switch never received the request it has to answer with '%s' (controller wrote %r)" % (i, k, w.peers[i].got))
            w.lines.append("  VIOLATED %s: %s" % w.bad[-1])
            raise Stop()
          continue
        outs.append(w.deliver(i, [(k, s)]))
      if w.bad: raise Stop()
  except Stop:
    pass
  finally:
    w.dispose()
  return w, outs


# tier -> (asynchronous kinds of connection 0, how many of them, asynchronous kinds of connection 1)
G_BOUNDS = {False: (("ps-add", "echo", "err-code"), 1, ("ps-add",)),
            True: (("ps-add", "ps-mod", "echo", "err-code"), 2, ("ps-add", "echo", "err-code"))}

def gen_g_cases (thorough):
  """(dpids, scripts).  Full overlap: connection 0 with an asynchronous message of every kind at every
  position, connection 1 with a port-status at every position.  Loss: connection 0 (port-status at every
  position) is closed after every prefix of its script while connection 1 goes through its handshake."""
  kinds0, k0, kinds1 = G_BOUNDS[bool(thorough)]
  s0 = g_scripts(0, kinds0, k0)
  s1 = g_scripts(1, kinds1, 1)
  s0ps = g_scripts(0, ("ps-add",), 1)
  cases = []
  for dpids in ((1, 2), (1, 1)):
    for a in s0:
      for b in s1: cases.append((dpids, (a, b)))
    for a in s0ps:
      for p in range(len(a)):
        for b in s1: cases.append((dpids, (a[:p] + (("close", 0),), b)))
  return cases


def _g_worker (item):
  from mc.env import boot
  boot()
  rep = Report(PID, "model_checking")
  for dpids, scripts in item:
    for order in merges2(len(scripts[0]), len(scripts[1])):
      w, outs = run_overlap(dpids, scripts, order)
      rep.evaluations += 1
      rep.transitions += w.transitions
      rep.outcome(("overlap", tuple(outs)))
      data = dict(part="g", dpids=list(dpids), scripts=[[list(x) for x in sc] for sc in scripts], order=list(order))
      for k, what in w.bad: rep.violation(k, what, data)
      if not w.bad and rep.evaluations % 1999 == 11: rep.sample(dict(case=data, trace=w.lines))
  return rep


# =============================================================================
# part (h): application listeners that RETURN something to revent (halt / remove / continue)
# =============================================================================
# every return value raiseEvent() interprets, plus setting event.halt; None is what every other part returns
RET_FORMS = {"EventHalt": "returns EventHalt", "EventHaltAndRemove": "returns EventHaltAndRemove", "True": "returns True (halt)",
             "empty-tuple": "returns () (halt)", "set-halt": "sets event.halt = True", "EventContinue": "returns EventContinue",
             "EventRemove": "returns EventRemove", "False": "returns False (remove listener)"}
RET_ORDER = ("EventHalt", "EventHaltAndRemove", "True", "empty-tuple", "set-halt", "EventContinue", "EventRemove", "False")
RET_HALTS = ("EventHalt", "EventHaltAndRemove", "True", "empty-tuple", "set-halt")
RET_EVENTS = (("nexus", "ConnectionHandshakeComplete"), ("nexus", "ConnectionUp"), ("nexus", "FeaturesReceived"), ("nexus", "PortStatus"),
              ("nexus", "ConnectionDown"), ("connection", "ConnectionUp"), ("connection", "FeaturesReceived"), ("connection", "PortStatus"),
              ("connection", "ConnectionDown"))

def gen_rets ():
  return [(where, ev, form) for where, ev in RET_EVENTS for form in RET_ORDER]


def h_scripts (thorough):
  """(asyncs, last, mode): the part (a) scripts restricted to port-status messages (0..2 of them deferred,
  before the features reply, after connection-up), every segmentation; each is followed by close."""
  kinds, kmax = (("ps-add", "ps-mod", "echo"), 3) if thorough else (("ps-add",), 2)
  out = []
  for asyncs in gen_scripts(kinds, kmax):
    for last in ("barrier", "barrier-unsup"):
      for mode, chunks in chunkings(asyncs, last): out.append((asyncs, last, mode))
  return out


def run_h_case (case):
  """case: ('script', ret, asyncs, last, mode) | ('ops', ret, ops)"""
  if case[0] == "script":
    kind, ret, asyncs, last, mode = case
    asyncs = tuple((s, k) for s, k in asyncs)
    chunks = dict(chunkings(asyncs, last))[mode]
    w, outs = run_script(chunks, ("close", sum(len(c) for c in chunks)), ret=tuple(ret))
    return w, outs, list(w.bad)
  kind, ret, ops = case
  return run_listener_case(None, [tuple(o) for o in ops], ret=tuple(ret))


def _h_worker (item):
  from mc.env import boot
  boot()
  rep = Report(PID, "model_checking")
  for case in item:
    w, outs, bad = run_h_case(case)
    rep.evaluations += 1
    rep.transitions += w.transitions
    rep.outcome(("returns", case[1], tuple(outs), w.ret_calls, len(w.halted)))
    rep.extra["listener_returns"] = rep.extra.get("listener_returns", 0) + w.ret_calls
    rep.extra["events_halted"] = rep.extra.get("events_halted", 0) + len(w.halted)
    data = dict(part="h", case=_jsonable(case))
    for k, what in bad: rep.violation(k, what, data)
    if not bad and w.halted and rep.evaluations % 499 == 5: rep.sample(dict(case=data, trace=w.lines))
  return rep


def _jsonable (x):
  if isinstance(x, (tuple, list)): return [_jsonable(y) for y in x]
  return x


# =============================================================================
# part (i): state that survives from BEFORE the connection: the controller-wide xid counter at its
# numeric boundaries, and the nexus / handshake options that decide which requests the handshake sends
# =============================================================================
XID_BOUNDARIES = (1 << 31, 1 << 16, 1 << 8, 1 << 24)      # 2**31 - 1 is MAX_XID: the counter wraps there

class XidCounter (object):
  """The module-level xid counter of libopenflow_01 (shared by every message of every connection) put into
  the state it has after `start - 1` draws, with pox's own constructor; restored afterwards."""
  def __init__ (self, start): self.start = start
  def __enter__ (self):
    import pox.openflow.libopenflow_01 as of
    self.of = of; self.saved = of.generate_xid
    if self.start is not None: of.generate_xid = of.xid_generator(self.start)
  def __exit__ (self, *a):
    self.of.generate_xid = self.saved


OPTS_DEFAULT = (128, True, True, "default")
SWITCH_XID_MODES = ("zero", "max", "pending")

def gen_opts ():
  """(nexus.miss_send_len, nexus.clear_flows_on_connect, HandshakeOpenFlowHandlers.request_description,
  xids of the messages the switch originates)"""
  return [(m, c, d, "default") for m in (128, None, 0) for c in (True, False) for d in (True, False)] + \
         [OPTS_DEFAULT[:3] + (x,) for x in SWITCH_XID_MODES]


def i_histories (thorough):
  """One connection (either barrier flavour; then send-error or not; close) and two connections of one
  datapath (every merge order of their handshake deliveries, both close orders), as in part (f)."""
  one, two = f_histories(thorough)
  one = [h for h in one if sum(1 for o in h if o[0] == "deliver") == 4]
  return one, two


def gen_i_cases (thorough):
  """('ops', start, opts, ops) | ('script', start, opts, asyncs, last, mode)"""
  cases = []
  one, two = i_histories(thorough)
  K = 32 if thorough else 16
  kinds = ("ps-add", "ps-mod", "echo", "pktin", "err-xid", "err-code")
  scripts = [(a, last) for a in gen_scripts(kinds, 2 if thorough else 1) for last in ("barrier", "barrier-unsup")]
  # 1. the xid counter: the n-th xid drawn in the execution is the last one below the boundary, n = 1..K
  for B in XID_BOUNDARIES:
    for k in range(K):
      start = B - 1 - k
      for ops in one + two: cases.append(("ops", start, OPTS_DEFAULT, ops))
      if B == XID_BOUNDARIES[0] or thorough:
        for a, last in scripts: cases.append(("script", start, OPTS_DEFAULT, a, last, "sep"))
  # 2. every option combination, with the default counter and with the counter wrapping at every draw of the first handshake
  for opts in gen_opts():
    for a, last in scripts: cases.append(("script", None, opts, a, last, "sep"))
    for ops in one + two: cases.append(("ops", None, opts, ops))
    for k in range(10):
      for ops in one: cases.append(("ops", XID_BOUNDARIES[0] - 1 - k, opts, ops))
  return cases


def run_i_case (case):
  kind, start, opts = case[:3]
  with XidCounter(start):
    if kind == "script":
      asyncs = tuple((s, k) for s, k in case[3])
      chunks = dict(chunkings(asyncs, case[4]))[case[5]]
      w, outs = run_script(chunks, ("close", sum(len(c) for c in chunks)), opts=tuple(opts))
      return w, outs, list(w.bad)
    return run_listener_case(None, [tuple(o) for o in case[3]], opts=tuple(opts))


def _i_worker (item):
  from mc.env import boot
  boot()
  rep = Report(PID, "model_checking")
  for case in item:
    w, outs, bad = run_i_case(case)
    rep.evaluations += 1
    rep.transitions += w.transitions
    rep.outcome(("prior-state", case[2], tuple(outs)))
    data = dict(part="i", case=_jsonable(case))
    for k, what in bad: rep.violation(k, what, data)
    if not bad and rep.evaluations % 1499 == 5: rep.sample(dict(case=data, trace=w.lines))
  return rep


# =============================================================================
# part (k): the lattice of unrelated errors at every position of the handshake
# =============================================================================
def gen_k_cases (thorough):
  """(kind, position, last, mode): one error of the lattice (xid choice x type/code x body choice, see
  mc.refs.c09_lifecycle.err_kinds) at each of the 5 positions of the handshake script, either barrier flavour; then close."""
  cases = []
  for kind in L.err_kinds():
    for pos in range(NSLOT):
      for last in ("barrier", "barrier-unsup"):
        modes = [m for m, ch in chunkings(((pos, kind),), last)]
        for mode in (modes if thorough else modes[:1]): cases.append((kind, pos, last, mode))
  return cases


def run_k_case (case):
  kind, pos, last, mode = case
  chunks = dict(chunkings(((pos, kind),), last))[mode]
  return run_script(chunks, ("close", sum(len(c) for c in chunks)))


def _k_worker (item):
  from mc.env import boot
  boot()
  rep = Report(PID, "model_checking")
  for case in item:
    w, outs = run_k_case(case)
    rep.evaluations += 1
    rep.transitions += w.transitions
    rep.outcome(("error-lattice", case[1], case[2], tuple(outs)))
    data = dict(part="k", case=list(case))
    for k, what in w.bad: rep.violation(k, what, data)
    if w.read_exceptions:
      rep.extra["read_exceptions_contained_by_io_loop"] = rep.extra.get("read_exceptions_contained_by_io_loop", 0) + len(w.read_exceptions)
    if not w.bad and rep.evaluations % 2999 == 5: rep.sample(dict(case=data, trace=w.lines))
  return rep


UP0 = (("open", 0), ("deliver", 0), ("deliver", 0), ("deliver", 0))


def run (cfg):
  from mc.env import boot
  boot()
  rep = Report(PID, "model_checking")
  kinds = cfg.pick(("ps-add", "ps-mod", "echo", "pktin", "err-xid", "err-code"), L.ASYNC_KINDS)
  kmax = cfg.pick(2, 3)
  depth = cfg.pick(9, 12)
  roots = cfg.pick([((1, 1, 2), (), depth), ((1, 1, 2), UP0, depth - 1)],
                   [((1, 1, 2), (), depth), ((1, 1, 2), UP0, depth), ((1, 1, 1), UP0, depth - 1)])
  rep.rule = ("(a) the handshake script [hello, features reply, desc stats reply, barrier reply | BAD_REQUEST/BAD_TYPE error carrying the barrier xid] "
              "with every ordered placement of <=%d asynchronous messages from %r into the 5 positions, each in up to three segmentations (one message per "
              "recv; asynchronous messages glued in front of / behind the neighbouring handshake message); (b) for every such script: the I/O loop closes the "
              "connection after every message prefix, and the first send during every chunk that makes the controller write (hello, features reply, echo request) fails with EPIPE followed by close, or by the rest of the script "
              "and close; (c) breadth-first search with state matching over all histories of <=%d operations {open(i), deliver-next(i), close(i), send-error(i)} "
              "on 3 connections (datapath ids %s), from the empty controller and from a controller with connection 0 already announced; per-connection script "
              "[hello][features reply + port-status][barrier reply | barrier-unsupported error][port-status]; (d) every merge order of the three handshake "
              "deliveries of 2 (20 orders) and 3 (1680 orders) connections of ONE datapath id accepted in index order, each followed by every sequence of <=%d "
              "closes (covers a connection accepted first completing its handshake last); (e) the REAL OpenFlow_01_Task.run generator over a scripted "
              "listener and non-blocking sockets with an honest select: the stream [hello][features reply + port-status][desc][barrier reply | "
              "unsupported][port-status + echo request] then end-of-stream, alone and next to an announced connection of the same datapath, with "
              "%s chunk cut in two at %s, short messages cut twice, all chunks cut at once, and features replies of 41/42/43/84/85/86 ports "
              "(2000..4160 bytes; 42 ports = exactly 2048) with nothing / a port-status / an echo request padding to exactly 2048 or 4096 behind, "
              "pending bytes at a read cut at 2047/2048/2049/4095/4096/4097. After every operation: events on nexus and "
              "Connection, the registry (items()) and a sendToDPID probe per datapath id are compared with the reference life-cycle, and every other "
              "registry view (getConnection, [dpid], membership by dpid and by connection, keys(), values(), iteration, len, .dpids, iter_dpids()) "
              "is read and compared with items(). (f) application listeners acting DURING event delivery: every listener behaviour "
              "(source, event) in {nexus: ConnectionHandshakeComplete, ConnectionUp, FeaturesReceived, PortStatus, ConnectionDown; Connection: ConnectionUp, "
              "FeaturesReceived, PortStatus, ConnectionDown} x {close, disconnect (each: once per connection / every time it is called), "
              "send answered by EPIPE, sendToDPID of the event's datapath, raise} x target {the event's own connection, the older announced connection of the same "
              "datapath} (%d behaviours), each under: one connection (either barrier flavour) - every prefix of [hello][features reply + port-status][barrier "
              "reply | unsupported][port-status], then optionally send-error, then close (20 histories); two connections of ONE datapath - every merge order of "
              "their %s, then both closes in both orders (%d histories); listeners re-entered more than %d deep stop acting. "
              "(g) overlapping handshakes of two connections, datapath ids (1,2) and (1,1), one message per recv, scripts [hello, features reply, barrier reply "
              "(connection 0) | unsupported (connection 1)]: connection 0 with <=%d asynchronous message(s) from %r and connection 1 with <=1 from %r at EVERY "
              "position (before hello / before the features reply / before the barrier reply / after it), every merge order of the two scripts (<=%d per pair); and "
              "connection 0 (port-status at every position) closed by the I/O loop after every prefix of its script, merged in every order with every script of "
              "connection 1; port-status serial numbers are unique per connection so a message surfacing on another connection is recognised. "
              "(h) application listeners that only hand a value back to revent: (source, event) in %r x %r (%d behaviours; the listener runs after the "
              "recorder and after the registry-reading listener), each under every part-(a) script with <=%d asynchronous message(s) from %r in every "
              "segmentation followed by close (%d scripts) and under the one- and two-connection histories of (f); an event halted on the nexus is not "
              "demanded on the Connection object. (i) prior state: libopenflow_01.generate_xid re-created with xid_generator(B-1-k) for B in %r and every "
              "k < %d, under the full-handshake histories of (f) (one connection with either barrier flavour [send-error] close; two connections of one datapath "
              "in every merge order) and, for B = 2**31%s, every part-(a) script with <=%d asynchronous message from all six kinds; every option combination "
              "(nexus.miss_send_len in {128, None, 0}) x (clear_flows_on_connect) x (HandshakeOpenFlowHandlers.request_description) and the switch using xid "
              "0 / 0xffffffff / the xid of the pending controller request for its own hello, port-status, echo-request and packet-in (%d combinations), each "
              "under those scripts and histories with the default counter and with the counter wrapping at each of the first 10 draws. "
              "(j) breadth-first search with state matching, depth <=%d, from three roots (two announced connections of datapath 1 in either announcement "
              "order; of datapaths 1 and 2) over {deliver-next(i), send-error(i), close(i)} with the per-connection continuation [second hello (answered by the "
              "controller with a features request) | application sends a features request][second features reply + port-status][port-status]. "
              "(k) one error from the lattice xid %r x (type, code) %r x body %r (minus the barrier-unsupported error itself: %d errors) at each of the 5 "
              "positions of the handshake script, either barrier flavour, %s, then close. "
              "(l) the real loop with faults: after each of the 0..6 steps [accept][hello][features reply + port-status][desc][barrier reply | unsupported]"
              "[port-status + echo request] of connection 1 - alone, next to an announced connection 0 of the same datapath, of another datapath - one of: recv() "
              "on connection 1 / connection 0 raises %r; select reports it in the exceptional set; accept() raises %r; a connection is accepted whose hello "
              "meets EPIPE; then a further connection of datapath 1 connects and is announced and every open connection reaches end-of-stream (%d cases). "
              "In ALL parts an application listener on the nexus and on every Connection reads the registry during the delivery of every ConnectionUp / "
              "ConnectionDown / PortStatus / ConnectionHandshakeComplete / FeaturesReceived (no lost connection registered; the connection being announced is the one registered). "
              "distinct = (script shape, loss, "
              "observation sequence) for (a)/(b), (last op, observation) for (c), (listener behaviour, observation sequence) for (f), observation sequence for (g)"
              % (kmax, list(kinds), depth, " / ".join(str(r[0]) for r in roots), cfg.pick(1, 2),
                 "every", cfg.pick("header / message-boundary / middle / tail offsets", "every byte offset"),
                 len(gen_specs()), cfg.pick("first three deliveries (20 orders), then the remaining deliveries", "four deliveries (70 orders)"),
                 len(f_histories(not cfg.quick)[1]), World.MAX_NEST,
                 G_BOUNDS[not cfg.quick][1], list(G_BOUNDS[not cfg.quick][0]), list(G_BOUNDS[not cfg.quick][2]),
                 cfg.pick(70, 126),
                 ["%s:%s" % x for x in RET_EVENTS], list(RET_ORDER), len(gen_rets()), cfg.pick(2, 3), list(cfg.pick(("ps-add",), ("ps-add", "ps-mod", "echo"))),
                 len(h_scripts(not cfg.quick)), ["2**31", "2**16", "2**8", "2**24"], cfg.pick(16, 32), cfg.pick("", " (thorough: every B)"), cfg.pick(1, 2),
                 len(gen_opts()),
                 J_DEPTH[not cfg.quick], list(L.ERR_XIDS), list(L.ERR_CODES), list(L.ERR_BODIES), len(L.err_kinds()),
                 cfg.pick("one message per recv", "every segmentation"), list(RECV_ERRORS), list(ACCEPT_ERRORS), len(gen_l_cases(not cfg.quick))))
  rep.bound = dict(error_lattice=len(L.err_kinds()), post_handshake_bfs_depth=J_DEPTH[not cfg.quick], recv_errors=list(RECV_ERRORS), accept_errors=list(ACCEPT_ERRORS),
                   listener_return_behaviours=len(gen_rets()), xid_counter_offsets=cfg.pick(16, 32), xid_boundaries=[1 << 31, 1 << 16, 1 << 8, 1 << 24],
                   option_combinations=len(gen_opts()),
                   async_messages=kmax, async_kinds=list(kinds), bfs_depth=depth, connections=3, datapath_ids=2,
                   listener_behaviours=len(gen_specs()), listener_nesting=World.MAX_NEST, listener_connections=2,
                   overlap_connections=2, overlap_async_messages=[G_BOUNDS[not cfg.quick][1], 1])
  rep.assumptions = [
    "the peer is a faithful switch: it answers only requests it received, with the xid it read from the controller's bytes",
    "a port-status that arrives before the features reply may be dropped or delivered after connection-up (superseded by the features reply)",
    "ConnectionDown for a connection that never was announced is not constrained; events for a connection after the controller noticed its loss are constrained only by at-most-once / not-before-up",
    "'most recent' live connection = the live connection whose handshake completed (was announced) last, irrespective of accept order",
    "deferred sender is an inert stub (no partial writes; C20 covers them); data already queued on a socket is still readable after a failed send",
    "application listeners run after the recording listeners of the same source (lower priority), so the recorded order is the order in which events are RAISED; "
    "a connection dropped by a listener (close / disconnect / failed send) counts as lost from that moment: port-status messages not yet delivered on both "
    "sources are no longer demanded, and when a ConnectionUp listener on the nexus drops the connection the Connection object itself need not announce it "
    "(but must not announce it AFTER reporting it down)",
    "inside a listener only two registry facts are demanded: no datapath is registered to a lost connection (or to the connection being reported down), and "
    "during ConnectionUp of a live connection the datapath is registered to (and sendToDPID reaches) that connection",
    "a listener that halts an event does so AFTER the harness's recorder saw it (a listener that hides the event from every later listener cannot be "
    "observed); ConnectionUp / PortStatus halted on the nexus are by pox's design not raised on the Connection object, and the statement does not name "
    "the source, so the Connection's own log is not asked for them (everything raised on the nexus is demanded regardless of halts)",
    "an error is the barrier-unsupported error only if it carries the xid of the handshake's barrier request and type/code BAD_REQUEST/BAD_TYPE; "
    "every other error (whatever its body) is unrelated and must not complete the handshake",
    "a features reply received after connection-up (answer to a second features request) changes nothing in the life-cycle: the registry still maps the "
    "datapath to its most recently announced live connection",
    "an accept() that fails with the errno of a failed attempt or of a resource shortage, a recv() that raises, an exceptional condition: each concerns "
    "one connection (attempt); the loop must go on serving the others (otherwise their later loss goes unreported)",
    "a connection an application listener drops during ConnectionHandshakeComplete is lost BEFORE it was announced: ConnectionUp is not demanded "
    "for it and must not follow the ConnectionDown the drop produces",
    "the xid counter state is produced with pox's own xid_generator(start) (2**31 real draws are out of reach); the oracle demands nothing about xid "
    "values themselves, only that the life-cycle is unaffected by them",
    "state key = reference model + every life-cycle field of each real Connection, its handshake handler, socket flags, event logs and the real registry",
  ]
  only = cfg.only
  # ---- (a) + (b)
  if only in (None, "a", "ab", "b"):
    scripts = gen_scripts(kinds, kmax)
    lasts = ("barrier", "barrier-unsup")
    items = [(sl, lasts, only != "a") for sl in split(scripts, max(1, cfg.workers * 8))]
    for r in pmap(_ab_worker, items, cfg.workers, seed=cfg.seed):
      rep.merge(r)
    rep.extra["scripts"] = len(scripts) * 2
    rep.state_count += rep.evaluations
  # ---- (d)
  if only in (None, "d"):
    tails = {n: close_tails(n, cfg.pick(1, 2)) for n in (2, 3)}
    cases = [(n, order, tails[n]) for n in (2, 3) for order in merges(n)]
    n0 = rep.evaluations
    for r in pmap(_d_worker, split(cases, max(1, cfg.workers * 4)), cfg.workers, seed=cfg.seed):
      rep.merge(r)
    rep.extra["merge_orders"] = len(cases)
    rep.state_count += rep.evaluations - n0
  # ---- (e)
  if only in (None, "e"):
    cases = gen_e_cases(not cfg.quick)
    n0 = rep.evaluations
    for r in pmap(_e_worker, split(cases, max(1, cfg.workers * 4)), cfg.workers, seed=cfg.seed):
      rep.merge(r)
    rep.extra["real_loop_cases"] = len(cases)
    rep.state_count += rep.evaluations - n0
  # ---- (l)
  if only in (None, "l"):
    cases = gen_l_cases(not cfg.quick)
    n0 = rep.evaluations
    for r in pmap(_l_worker, split(cases, max(1, cfg.workers * 4)), cfg.workers, seed=cfg.seed):
      rep.merge(r)
    rep.extra["loop_fault_cases"] = len(cases)
    rep.state_count += rep.evaluations - n0
  # ---- (f)
  if only in (None, "f"):
    specs = gen_specs()
    one, two = f_histories(not cfg.quick)
    cases = [(sp, ops) for sp in specs for ops in (two if sp[3] == "older" else one + two)]
    n0 = rep.evaluations
    for r in pmap(_f_worker, split(cases, max(1, cfg.workers * 4)), cfg.workers, seed=cfg.seed):
      rep.merge(r)
    rep.extra["listener_specs"] = len(specs); rep.extra["listener_cases"] = len(cases)
    rep.state_count += rep.evaluations - n0
  # ---- (g)
  if only in (None, "g"):
    cases = gen_g_cases(not cfg.quick)
    n0 = rep.evaluations
    for r in pmap(_g_worker, split(cases, max(1, cfg.workers * 4)), cfg.workers, seed=cfg.seed):
      rep.merge(r)
    rep.extra["overlap_script_pairs"] = len(cases)
    rep.state_count += rep.evaluations - n0
  # ---- (h)
  if only in (None, "h"):
    rets = gen_rets()
    hs = h_scripts(not cfg.quick)
    one, two = f_histories(not cfg.quick)
    cases = [("script", r, a, last, mode) for r in rets for a, last, mode in hs] + [("ops", r, ops) for r in rets for ops in one + two]
    n0 = rep.evaluations
    for r in pmap(_h_worker, split(cases, max(1, cfg.workers * 4)), cfg.workers, seed=cfg.seed):
      rep.merge(r)
    rep.extra["listener_return_behaviours"] = len(rets); rep.extra["listener_return_cases"] = len(cases)
    rep.state_count += rep.evaluations - n0
  # ---- (i)
  if only in (None, "i"):
    cases = gen_i_cases(not cfg.quick)
    n0 = rep.evaluations
    for r in pmap(_i_worker, split(cases, max(1, cfg.workers * 4)), cfg.workers, seed=cfg.seed):
      rep.merge(r)
    rep.extra["prior_state_cases"] = len(cases)
    rep.state_count += rep.evaluations - n0
  # ---- (k)
  if only in (None, "k"):
    cases = gen_k_cases(not cfg.quick)
    n0 = rep.evaluations
    for r in pmap(_k_worker, split(cases, max(1, cfg.workers * 4)), cfg.workers, seed=cfg.seed):
      rep.merge(r)
    rep.extra["error_lattice_cases"] = len(cases)
    rep.state_count += rep.evaluations - n0
  # ---- (j)
  if only in (None, "j"):
    up = lambda i: (("deliver", i),) * 3
    o01 = (("open", 0),) + up(0) + (("open", 1),) + up(1)
    o10 = (("open", 0), ("open", 1)) + up(1) + up(0)
    for dpids, root in (((1, 1), o01), ((1, 1), o10), ((1, 2), o01)):
      bfs(make_expand(dpids, root, "j"), J_DEPTH[not cfg.quick], rep, workers=cfg.workers, seed=cfg.seed, max_states=cfg.pick(200000, 2000000))
  # ---- (c)
  if only in (None, "c"):
    for dpids, root, d in roots:
      bfs(make_expand(dpids, root), d, rep, workers=cfg.workers, seed=cfg.seed, max_states=cfg.pick(200000, 2000000))
  return rep


def replay (cfg, data):
  from mc.env import boot
  boot()
  if data.get("part") == "ab":
    asyncs = tuple((s, k) for s, k in data["asyncs"])
    chunks = dict(chunkings(asyncs, data["last"])).get(data["mode"])
    if chunks is None: chunks = chunkings(asyncs, data["last"])[0][1]
    loss = tuple(data["loss"]) if data.get("loss") else None
    w, outs = run_script(chunks, loss)
    return bool(w.bad), "\n".join(w.lines + ["=> %r" % ([k for k, _ in w.bad],)])
  if data.get("part") == "e":
    w, outs = run_task_case((data["pre"], data["nports"], data["last"], data["tail"], data["cuts"]))
    return bool(w.bad), "\n".join(w.lines + ["=> %r" % ([k for k, _ in w.bad],)])
  if data.get("part") == "f":
    w, outs, bad = run_listener_case(tuple(data["spec"]), [tuple(o) for o in data["ops"]])
    return bool(bad), "\n".join(w.lines + ["=> %r" % ([k for k, _ in bad],)])
  if data.get("part") == "g":
    scripts = tuple(tuple((k, s) for k, s in sc) for sc in data["scripts"])
    w, outs = run_overlap(tuple(data["dpids"]), scripts, tuple(data["order"]))
    return bool(w.bad), "\n".join(w.lines + ["=> %r" % ([k for k, _ in w.bad],)])
  if data.get("part") == "h":
    w, outs, bad = run_h_case(data["case"])
    return bool(bad), "\n".join(w.lines + ["=> %r" % ([k for k, _ in bad],)])
  if data.get("part") == "i":
    w, outs, bad = run_i_case(data["case"])
    return bool(bad), "\n".join(["xid counter re-created at %r, options (miss_send_len, clear_flows_on_connect, request_description) = %r" % (data["case"][1], data["case"][2])]
                                + w.lines + ["=> %r" % ([k for k, _ in bad],)])
  if data.get("part") == "l":
    c = data["case"]
    w, outs = run_fault_case((c[0], c[1], c[2], tuple(c[3])))
    return bool(w.bad), "\n".join(w.lines + ["=> %r" % ([k for k, _ in w.bad],)])
  if data.get("part") == "k":
    w, outs = run_k_case(tuple(data["case"]))
    return bool(w.bad), "\n".join(w.lines + ["=> %r" % ([k for k, _ in w.bad],)])
  if data.get("part") == "d":
    w, outs, bad = run_merge(data["n"], tuple(data["order"]), tuple(data["closes"]))
    return bool(bad), "\n".join(w.lines + ["=> %r" % ([k for k, _ in bad],)])
  cw = CWorld(tuple(data.get("dpids", (1, 1, 2))), script=data.get("script", "c"))
  lines = []
  try:
    for op in data.get("root", []): cw.apply(tuple(op))
    for op in data["history"]:
      cw.apply(tuple(op))
    lines = cw.w.lines
  finally:
    cw.w.dispose()
  return bool(cw.w.bad), "\n".join(lines + ["=> %r" % ([k for k, _ in cw.w.bad],)])
