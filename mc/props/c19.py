"""C19 - discovered topology is the physical one; flooding is pruned to a tree.

Part G (graphs): the real spanning_tree._calc_spanning_tree/_update_tree on a real Discovery object whose
  adjacency is every multigraph on 2..4 (thorough 5) switches over a per-pair link alphabet; observable = the
  NO_FLOOD bits resulting from the emitted port-mods; oracle = a flood simulation over the physical links
  (own code): from every switch a flooded frame must reach every switch of its bidirectional component exactly
  once, no switch twice, and every port that is on no link stays flood-enabled.
Part H (histories): netsim with real switches, real discovery probes (LLDP over packet-out / packet-in) and the
  real spanning tree; every sequence of <=2 (quick) / <=3 (thorough) events {link down, link up, switch
  disconnect, switch connect} on a triangle and a square with a diagonal; after every event (and settling:
  send cycles + expiry under the virtual clock) the discovered adjacency must equal the physical directed links,
  the LinkEvent stream must alternate per link, and a frame really flooded by the switches (FLOOD action) from
  every switch must reach every switch of the component exactly once.
Part P (probe codec): _create_discovery_packet -> bytes -> PacketIn -> Discovery handler for every dpid with
  bytes in {0,1,0x80,0xff} x a set of port numbers; every probe length class x trailing padding 0..24 bytes.
"""
import itertools, struct
from mc.engine import pmap, split, explore, Ctx
from mc.report import Report, digest
from mc.refs import ofwire as W

PID = "C19"
NO_FLOOD = W.OFPPC_NO_FLOOD


class VTimer (object):
  """Stand-in for recoco.Timer inside discovery / spanning_tree: records itself and when it is due on the virtual
  clock; it fires only when the harness' event loop (HWorld.run_for) gets to it."""
  live = []
  clock = None
  seq = 0
  def __init__ (self, timeToWake, callback, absoluteTime=False, recurring=False, args=(), kw={}, scheduler=None,
                started=True, selfStoppable=True):
    self.interval = timeToWake; self.callback = callback; self.recurring = recurring
    self.args = args; self.kw = kw; self.cancelled = False
    now = VTimer.clock.now if VTimer.clock is not None else 0.0
    self.due = timeToWake if absoluteTime else now + timeToWake
    VTimer.seq += 1; self.seq = VTimer.seq
    VTimer.live.append(self)
  def cancel (self): self.cancelled = True
  def fire (self):
    if not self.cancelled: return self.callback(*self.args, **self.kw)


def controller_components (clock, link_events, link_timeout=None):
  """Fresh real Discovery + spanning tree wired to the current nexus (core.openflow)."""
  from mc.env import boot
  core = boot()
  import pox.openflow.discovery as D
  import pox.openflow.spanning_tree as ST
  D.Timer = VTimer; D.time = clock; D.random = lambda: 0.0
  ST.Timer = VTimer; ST.time = clock
  ST._prev.clear(); ST._dirty_switches.clear()
  ST._noflood_by_default = False; ST._hold_down = False
  VTimer.live = []; VTimer.clock = clock; VTimer.seq = 0
  disc = D.Discovery(link_timeout=link_timeout) if link_timeout else D.Discovery()
  core.components["openflow_discovery"] = disc
  core.openflow.addListenerByName("ConnectionUp", ST._handle_ConnectionUp)
  disc.addListenerByName("LinkEvent", ST._handle_LinkEvent)
  disc.addListenerByName("LinkEvent", lambda e: link_events.append((e.added, tuple(e.link))), priority=10)
  return D, ST, disc


# =====================================================================================================
# Part G: all graphs
# =====================================================================================================
PAIR_QUICK = ("none", "a>b", "b>a", "both", "both2", "both2x", "both+a>b", "a>b,b>a-diffports")
PAIR_QUICK4 = ("none", "a>b", "b>a", "both", "both2x", "both+a>b")     # quick tier, 4 switches (thorough: all of PAIR_QUICK)
PAIR_THOROUGH5 = ("none", "a>b", "both", "both2x")


class StubCon (object):
  def __init__ (self, dpid, nports, clock):
    from pox.openflow.of_01 import PortCollection
    import pox.openflow.libopenflow_01 as of
    self.dpid = dpid; self.connect_time = clock.now - 100; self.sent = []
    self.ports = PortCollection()
    plist = list(range(1, nports + 1)) if isinstance(nports, int) else list(nports)
    for p in plist:
      self.ports._ports.add(of.ofp_phy_port(port_no=p, hw_addr=bytes([2, 0, 0, dpid & 0xff, p >> 8, p & 0xff]), name="p%d" % p))
    self.config = dict((p, 0) for p in plist)
  def send (self, msg):
    import pox.openflow.libopenflow_01 as of
    self.sent.append(msg)
    if isinstance(msg, of.ofp_port_mod):
      self.config[msg.port_no] = (self.config[msg.port_no] & ~msg.mask) | (msg.config & msg.mask)


SELF_KINDS = ("none", "self", "self>")          # per switch: a cable between two of its own ports (both directions / one seen)
NUMBERINGS = ("low", "256", "below-max", "max-down", "max-up")
NUMBERING_CLASS = {"256": "256", "below-max": "OFPP_MAX-1", "max-down": "OFPP_MAX", "max-up": "OFPP_MAX"}

def number_port (scheme, p, k):
  """Actual port number of the p-th (1-based) of a switch's k ports (the k-th is the host-facing one).
  low: 1..k; 256: 254.. (crosses the one-byte boundary); below-max: OFPP_MAX-1, OFPP_MAX-2, ... in allocation order;
  max-down: OFPP_MAX, OFPP_MAX-1, ...; max-up: the last cable port is OFPP_MAX, the others just below it."""
  if scheme == "low": return p
  if scheme == "256": return 253 + p
  if scheme == "below-max": return W.OFPP_MAX - p
  if scheme == "max-down": return W.OFPP_MAX - (p - 1)
  if scheme == "max-up": return W.OFPP_MAX - ((k - 1 - p) % k)
  raise ValueError(scheme)


def build_graph (n, pairs, dpids, selfs=None, numbering="low"):
  """Returns (directed physical links [(a,pa,b,pb)], port numbers per switch).  Ports are allocated per switch in order
  (pair cables, then the switch's own loop cable if any, then one host-facing port) and then numbered by the scheme."""
  nextp = dict((d, 1) for d in dpids)
  links = []
  def port (d):
    p = nextp[d]; nextp[d] += 1; return p
  idx = 0
  for i in range(n):
    for j in range(i + 1, n):
      kind = pairs[idx]; idx += 1
      a, b = dpids[i], dpids[j]
      if kind == "none": continue
      if kind == "a>b":
        pa, pb = port(a), port(b); links.append((a, pa, b, pb))
      elif kind == "b>a":
        pa, pb = port(a), port(b); links.append((b, pb, a, pa))
      elif kind in ("both", "both2", "both+a>b"):
        pa, pb = port(a), port(b); links += [(a, pa, b, pb), (b, pb, a, pa)]
        if kind == "both2":
          pa, pb = port(a), port(b); links += [(a, pa, b, pb), (b, pb, a, pa)]
        elif kind == "both+a>b":
          pa, pb = port(a), port(b); links.append((a, pa, b, pb))
      elif kind == "both2x":
        # two parallel cables, crossed: a.p1 - b.p2 and a.p2 - b.p1
        pa1, pb1, pa2, pb2 = port(a), port(b), port(a), port(b)
        links += [(a, pa1, b, pb2), (b, pb2, a, pa1), (a, pa2, b, pb1), (b, pb1, a, pa2)]
      elif kind == "a>b,b>a-diffports":
        pa, pb = port(a), port(b); links.append((a, pa, b, pb))
        pa, pb = port(a), port(b); links.append((b, pb, a, pa))
  for i, kind in enumerate(selfs or ()):
    d = dpids[i]
    if kind == "none": continue
    p, q = port(d), port(d)
    links.append((d, p, d, q))
    if kind == "self": links.append((d, q, d, p))
  # one host-facing port per switch
  k = dict((d, nextp[d]) for d in dpids)
  links = [(a, number_port(numbering, pa, k[a]), b, number_port(numbering, pb, k[b])) for (a, pa, b, pb) in links]
  ports = dict((d, [number_port(numbering, p, k[d]) for p in range(1, k[d] + 1)]) for d in dpids)
  return links, ports


def flood_check (dpids, links, flood_ok, ports, fail):
  """Own flood simulation over the physical directed links.  flood_ok(d, p) -> port floods; ports[d] = port numbers."""
  out = {}
  for (a, pa, b, pb) in links: out.setdefault((a, pa), []).append((b, pb))
  onlink = set((a, pa) for (a, pa, b, pb) in links) | set((b, pb) for (a, pa, b, pb) in links)
  # bidirectional component graph
  lset = set(links)
  adj = dict((d, set()) for d in dpids)
  for (a, pa, b, pb) in links:
    if a != b and (b, pb, a, pa) in lset: adj[a].add(b); adj[b].add(a)
  for d in dpids:
    for p in ports[d]:
      if (d, p) not in onlink and not flood_ok(d, p):
        fail("edge-port-not-flooding", "port %d of switch %#x is on no link but has flooding disabled" % (p, d)); return
  for s in dpids:
    comp = set([s]); stack = [s]
    while stack:
      x = stack.pop()
      for y in adj[x]:
        if y not in comp: comp.add(y); stack.append(y)
    got = dict((d, 0) for d in dpids)
    q = [(s, None)]; hops = 0
    while q:
      d, inp = q.pop(0); hops += 1
      if hops > 200:
        fail("flood-loops", "a frame flooded from switch %#x circulates forever" % s); return
      for p in ports[d]:
        if p == inp or not flood_ok(d, p): continue
        for (b, pb) in out.get((d, p), []):
          got[b] += 1
          q.append((b, pb))
    for d in dpids:
      if d == s:
        if got[d]: fail("flood-returns-to-source", "a frame flooded from switch %#x comes back to it" % s); return
      elif d in comp and got[d] == 0:
        fail("flood-misses-switch", "a frame flooded from switch %#x never reaches switch %#x of the same component" % (s, d)); return
      elif got[d] > 1:
        fail("flood-duplicates", "a frame flooded from switch %#x reaches switch %#x %d times" % (s, d, got[d])); return


def run_graph (n, pairs, dpids, clock_cls, selfs=None, numbering="low"):
  from mc.env import ControllerStack
  clock = clock_cls()
  cs = ControllerStack(clock)
  ev = []
  D, ST, disc = controller_components(clock, ev)
  links, ports = build_graph(n, pairs, dpids, selfs, numbering)
  cons = {}
  for d in dpids:
    c = StubCon(d, ports[d], clock); cons[d] = c
    cs.nexus._connections[d] = c
  for l in links: disc.adjacency[D.Discovery.Link(*l)] = clock.now
  bad = []
  # input class of the case (part of the key): graphs with a switch cabled to itself, and port numberings near the
  # boundaries of the port number space, are reported apart from the plain cases
  cls = (":self-link" if selfs and any(k != "none" for k in selfs) else "") + (":ports=%s" % NUMBERING_CLASS[numbering] if numbering != "low" else "")
  def fail (k, what): bad.append(("%s:G:%s%s" % (PID, k, cls), what))
  try:
    ST._update_tree()
  except Exception as e:
    fail("update-tree-raised:%s" % type(e).__name__, "spanning_tree._update_tree raised %r" % (e,))
    return bad, None
  flood_ok = lambda d, p: not (cons[d].config[p] & NO_FLOOD)
  flood_check(dpids, links, flood_ok, ports, fail)
  obs = tuple(tuple(sorted(p for p in c.config if c.config[p] & NO_FLOOD)) for c in cons.values())
  return bad, obs


def _g_worker (items):
  from mc.env import boot, VClock
  boot()
  rep = Report(PID, "model_checking")
  for (n, pairs, dpids, selfs, numbering) in items:
    bad, obs = run_graph(n, pairs, dpids, VClock, selfs, numbering)
    rep.evaluations += 1; rep.transitions += 1
    rep.outcome(("G", n, obs, tuple(k for k, _ in bad)))
    for k, what in bad:
      rep.violation(k, what + " [graph on dpids %r: %r%s%s]" % (list(dpids), list(pairs), selfs and ", own cables %r" % (list(selfs),) or "",
                                                               numbering != "low" and ", port numbering %s" % numbering or ""),
                    dict(part="G", n=n, pairs=list(pairs), dpids=list(dpids), selfs=selfs and list(selfs), numbering=numbering))
    if rep.evaluations % 20000 == 1: rep.sample(dict(part="G", dpids=list(dpids), pairs=list(pairs), selfs=selfs, numbering=numbering, no_flood_ports=obs))
  rep.state_count = rep.evaluations
  return rep


def graph_items (quick):
  items = []
  for n in (2, 3, 4):
    npairs = n * (n - 1) // 2
    orders = [tuple(range(1, n + 1)), tuple(range(n, 0, -1))]
    if n == 3: orders.append((0x10, 2, 0xff00000000000001))
    alpha = PAIR_QUICK4 if (quick and n == 4) else PAIR_QUICK
    for pairs in itertools.product(alpha, repeat=npairs):
      for dp in orders: items.append((n, pairs, dp, None, "low"))
    # the same graphs with the ports numbered at the boundaries of the port number space
    if n <= (3 if quick else 4):
      for pairs in itertools.product(PAIR_QUICK4 if n == 4 else alpha, repeat=npairs):
        for dp in orders[:2]:
          for numbering in NUMBERINGS[1:]: items.append((n, pairs, dp, None, numbering))
    # ... and with every non-empty assignment of own cables (a switch cabled to itself) to the switches
    if n <= 3:
      salpha = PAIR_QUICK4 if (quick and n == 3) else PAIR_QUICK
      for pairs in itertools.product(salpha, repeat=npairs):
        for selfs in itertools.product(SELF_KINDS, repeat=n):
          if all(k == "none" for k in selfs): continue
          for dp in (orders[:1] if (quick and n == 3) else orders[:2]): items.append((n, pairs, dp, selfs, "low"))
  if not quick:
    for pairs in itertools.product(PAIR_THOROUGH5, repeat=10):
      items.append((5, pairs, (1, 2, 3, 4, 5), None, "low"))
      items.append((5, pairs, (5, 3, 1, 4, 2), None, "low"))
  return items


# =====================================================================================================
# Part H: histories on netsim
# =====================================================================================================
TOPOS = {
  # name: (ports per switch, bidirectional links, minimum frame size of each link's medium: 0 = frames arrive as sent
  #        (virtual link), 60 = Ethernet: shorter frames arrive zero-padded to the minimum frame size)
  "triangle": ([3, 3, 3], [((0, 1), (1, 1)), ((1, 2), (2, 1)), ((0, 2), (2, 2))], [60, 0, 60]),
  "square+diag": ([4, 3, 4, 3], [((0, 1), (1, 1)), ((1, 2), (2, 1)), ((2, 2), (3, 1)), ((3, 2), (0, 2)), ((0, 3), (2, 3))], [60, 0, 60, 0, 60]),
}
BCAST = b"\xff" * 6
FLOOD_FRAME = BCAST + bytes.fromhex("020000000099") + b"\x88\xb5" + b"flood-probe-" + bytes(34)
FAULT_TYPES_QUICK = ((W.PORT_MOD, 2), (W.PACKET_OUT, 1))             # (message type, fail at up to the k-th write of it)
FAULT_TYPES_THOROUGH = ((W.PORT_MOD, 3), (W.PACKET_OUT, 2), (W.BARRIER_REQUEST, 1), (W.FEATURES_REQUEST, 1), (W.FLOW_MOD, 1))


def make_net (world, nports, clock, components):
  """netsim.Net with (a) media that pad short frames, (b) control channels that can break: a write to a broken
  channel fails with EPIPE, and the controller's select loop notices the dead socket (Connection.close()) as soon
  as the handler that was running returns."""
  import errno, socket
  from mc.netsim import Net
  class HNet (Net):
    def __init__ (self, *a, **k):
      self.broken = []
      self.min_frame = {}                 # (sw, port) -> minimum size of frames arriving from that port's cable
      Net.__init__(self, *a, **k)
    def connect (self, i):
      self.sw[i].sw.set_connection(self.sw[i].conn)
      self.sw[i].drain()
      self.con[i] = ci = self.cs.connect()
      self._wrap(i, self.cs.cons[ci].sock)
      self.pump()
    def _wrap (self, i, sock):
      orig = sock.send
      sock.broken = False
      def send (data, flags=0):
        if sock.broken: raise socket.error(errno.EPIPE, "broken pipe")
        t = data[1] if len(data) >= 8 else None
        if world.recording: world.writes[i].append(t)
        f = world.fault
        if f is not None and f[0] == i and f[1] == t and not world.fault_fired:
          world.fcount += 1
          if world.fcount == f[2]:
            world.fault_fired = True
            sock.broken = True
            self.broken.append(i)
            world.switch_died(i)
            raise socket.error(errno.EPIPE, "broken pipe")
        return orig(data, flags)
      sock.send = send
    def reap (self):
      while self.broken:
        i = self.broken.pop(0)
        ci = self.con[i]
        if ci is not None:
          self.cs.close(ci)
          self.con[i] = None
          self.sw[i].drain()
    def pump_control (self):
      moved = False
      for i, st in enumerate(self.sw):
        ci = self.con[i]
        if ci is None:
          st.drain(); continue
        out = st.drain()
        if out:
          moved = True
          self.cs.feed(ci, out)
          self.reap()
          ci = self.con[i]
          if ci is None: continue
        tx = self.cs.take_tx(ci)
        if tx:
          moved = True
          st.feed(tx)
      return moved
    def _emit (self, i, port, frame, q, rec):
      m = self.min_frame.get((i, port), 0)
      if len(frame) < m and (i, port) in self.peer: frame = frame + bytes(m - len(frame))
      Net._emit(self, i, port, frame, q, rec)
  return HNet(nports, [], clock=clock, max_buffers=8, components=components)


class HWorld (object):
  def __init__ (self, topo):
    from mc.env import VClock
    # "triangle@3": the same topology with Discovery(link_timeout=3)
    # "triangle;carrier": a cable that goes down / comes up is reported by both switches (PortStatus MODIFY, OFPPS_LINK_DOWN)
    # "triangle;dark": carrier, and the switches connect while all cables are still unplugged
    topo, _, lt = topo.partition("@")
    topo, _, flags = topo.partition(";")
    self.carrier = flags in ("carrier", "dark")
    self.dark = flags == "dark"
    self.link_timeout = float(lt) if lt else None
    self.nports, self.links, self.media = TOPOS[topo]
    self.clock = VClock(9000.0)
    self.link_events = []
    self.recording = False; self.writes = dict((i, []) for i in range(len(self.nports)))
    self.fault = None; self.fcount = 0; self.fault_fired = False
    self.cls = ""; self.resession = None
    def comps (net):
      self.D, self.ST, self.disc = controller_components(self.clock, self.link_events, self.link_timeout)
    self.net = make_net(self, self.nports, self.clock, comps)
    for i, (a, b) in enumerate(self.links):
      self.net.min_frame[a] = self.net.min_frame[b] = self.media[i]
    self.up = dict((i, "down" if self.dark else "up") for i in range(len(self.links)))   # physical link state: up | down | ab | ba (one-way)
    self.connected = dict((i, True) for i in range(len(self.nports)))
    self.was_linked = set()              # (sw, port) that have been on a live link at some time
    if self.dark:
      for i in range(len(self.links)): self._carrier(i, False)
      for st in self.net.sw: st.drain()
    self._wire()
    self.net.connect_all()
    self._flood_flows(range(len(self.nports)))
    self.bad = []; self.soft = []
    self.settle()

  def fail (self, k, what): self.bad.append(("%s:H:%s%s" % (PID, k, self.cls), what))

  def _carrier (self, li, on):
    for (swi, port) in self.links[li]:
      sw = self.net.sw[swi].sw
      p = sw.ports[port]
      new = (p.state & ~W.OFPPS_LINK_DOWN) | (0 if on else W.OFPPS_LINK_DOWN)
      if new != p.state:
        p.state = new
        sw.send_port_status(p, W.OFPPR_MODIFY)

  def _wire (self):
    self.net.peer = {}
    for i, (a, b) in enumerate(self.links):
      # a disconnected switch is treated as gone altogether (the controller cannot prune its ports)
      if self.connected[a[0]] and self.connected[b[0]]:
        if self.up[i] in ("up", "ab"): self.net.peer[a] = b
        if self.up[i] in ("up", "ba"): self.net.peer[b] = a
        if self.up[i] != "down": self.was_linked.add(a); self.was_linked.add(b)

  def switch_died (self, i):
    """The switch behind a control channel that breaks is gone, dataplane included."""
    self.connected[i] = False
    self._wire()

  def _flood_flows (self, sws):
    for i in sws:
      if self.net.con[i] is None: continue
      # the switch floods broadcast frames itself (real FLOOD action honouring NO_FLOOD)
      self.net.sw[i].feed(W.flow_mod(77, W.match_fields(dl_dst=BCAST), W.OFPFC_ADD, W.a_output(W.OFPP_FLOOD), priority=10))
    self.net.pump()

  def run_for (self, seconds):
    """Discrete-event loop over the components' timers (probe sender, link expiry, spanning tree's delayed port
    checks) on the virtual clock: the earliest due timer fires, the network is pumped, repeat."""
    end = self.clock.now + seconds
    fired = 0
    while True:
      VTimer.live = [t for t in VTimer.live if not t.cancelled]
      if not VTimer.live: break
      t = min(VTimer.live, key=lambda t: (t.due, t.seq))
      if t.due > end: break
      if t.due > self.clock.now: self.clock.advance(t.due - self.clock.now)
      if t.recurring: t.due += t.interval
      else: t.cancelled = True
      if t.callback(*t.args, **t.kw) is False and t.recurring: t.cancelled = True
      self.net.reap()
      self.net.pump()
      fired += 1
      if fired > 5000: raise RuntimeError("timer storm: more than 5000 timer firings in %s virtual seconds" % seconds)
    if end > self.clock.now: self.clock.advance(end - self.clock.now)

  def settle (self):
    """Let discovery converge: long enough for dead links to age past the link timeout and be noticed by the next
    expiry check, for the spanning tree's delayed port checks, and for one more probe cycle."""
    lt = self.disc._link_timeout
    self.run_for(2 * lt + self.disc._timeout_check_period + self.disc.send_cycle_time + 1)

  def ops (self):
    o = []
    for i in range(len(self.links)):
      for st in ("up", "down", "ab", "ba"):
        if st != self.up[i]: o.append((st, i))
    for i in range(len(self.nports)):
      o.append(("disc", i) if self.connected[i] else ("conn", i))
      if self.connected[i]: o.append(("reconn", i))
    return o

  def apply (self, op, fault=None):
    """fault = (switch, OpenFlow message type, k): while the event is being absorbed, the controller's k-th write of
    that type to that switch's control channel fails and the channel stays broken (the switch has died)."""
    self.bad = []
    n0 = len(self.link_events)
    k, i = op
    self.writes = dict((j, []) for j in range(len(self.nports))); self.recording = True
    self.fault = fault; self.fcount = 0; self.fault_fired = False
    self.cls = ":after-channel-break" if fault else (":after-reconnect-overlap" if k == "reconn" else "")
    self.resession = self.dp(i) if k == "reconn" else None
    if k in ("down", "up", "ab", "ba"):
      was = self.up[i]
      self.up[i] = k; self._wire()
      if self.carrier and (was == "down") != (k == "down"): self._carrier(i, k != "down")
      self.net.pump()
    elif k == "disc":
      self.connected[i] = False; self.net.disconnect(i); self._wire()
    elif k == "conn":
      self.connected[i] = True
      # a reconnecting switch comes back with a clean configuration
      for p in self.net.sw[i].sw.ports.values(): p.config &= ~NO_FLOOD
      self.net.sw[i].sw.table._table[:] = []
      self._wire()
      self.net.connect(i)
      self._flood_flows([i])
    elif k == "reconn":
      # the switch's control session is re-established (the switch itself keeps running, configuration and flow
      # table included) and the controller learns of the old session's death only after the new one is up
      old = self.net.con[i]
      self.net.connect(i)
      self.net.cs.close(old)
      self.net.pump()
      self._flood_flows([i])             # (the controller clears a switch's flow table when it connects)
    try:
      self.settle()
    except RuntimeError as e:
      self.fail("loop", str(e)); return ("loop",)
    finally:
      self.recording = False; self.fault = None
    self.check(n0)
    return (k, tuple(sorted(self.noflood())), bool(fault) and self.fault_fired)

  def dp (self, i): return i + 1

  def noflood (self):
    return [(i, p.port_no) for i, st in enumerate(self.net.sw) for p in st.sw.ports.values() if p.config & NO_FLOOD]

  def physical (self):
    """Directed physical links between connected switches, as (dpid1, port1, dpid2, port2)."""
    out = set()
    for i, (a, b) in enumerate(self.links):
      if self.connected[a[0]] and self.connected[b[0]]:
        if self.up[i] in ("up", "ab"): out.add((self.dp(a[0]), a[1], self.dp(b[0]), b[1]))
        if self.up[i] in ("up", "ba"): out.add((self.dp(b[0]), b[1], self.dp(a[0]), a[1]))
    return out

  def check (self, n0):
    # 1. discovered adjacency == physical directed links
    adj = set(tuple(l) for l in self.disc.adjacency)
    phys = self.physical()
    if adj != phys:
      extra = sorted(adj - phys); missing = sorted(phys - adj)
      self.fail("adjacency:%s" % ("stale-link-kept" if extra else "link-not-discovered"),
                "discovered adjacency differs from the physical links: not withdrawn %r, not discovered %r" % (extra, missing))
    # 1b. nothing physical changed while settling: a link that is physically there must not be withdrawn
    #     (the links of a switch whose old control session is reported down may be withdrawn and found again)
    for added, l in self.link_events[n0:]:
      if not added and l in phys and self.resession not in (l[0], l[2]):
        self.fail("events:healthy-link-withdrawn", "link %r was announced removed although it is physically up" % (l,)); break
    # 2. LinkEvent stream alternates per link, starting with added
    state = {}
    for added, l in self.link_events:
      if state.get(l, False) == added:
        self.fail("events:%s-twice" % ("added" if added else "removed"), "link %r announced %s twice in a row" % (l, "added" if added else "removed"))
        break
      state[l] = added
    # 3. real flooding: from every connected switch, every switch of its component exactly once
    live = [i for i in range(len(self.nports)) if self.connected[i]]
    adjm = dict((i, set()) for i in live)
    for i, (a, b) in enumerate(self.links):
      if self.up[i] == "up" and a[0] in adjm and b[0] in adjm: adjm[a[0]].add(b[0]); adjm[b[0]].add(a[0])
    for s in live:
      comp = set([s]); stack = [s]
      while stack:
        x = stack.pop()
        for y in adjm[x]:
          if y not in comp: comp.add(y); stack.append(y)
      hostport = self.nports[s]          # the highest port of every switch is host-facing
      try:
        trace, delivered = self.net.inject(s, hostport, FLOOD_FRAME)
      except RuntimeError as e:
        self.fail("flood-loops", "a frame flooded from switch %d circulates: %s" % (s + 1, e)); return
      got = dict((i, 0) for i in range(len(self.nports)))
      for rec in trace[1:]: got[rec[0]] += 1
      for d in live:
        if d == s:
          if got[d]: self.fail("flood-returns-to-source", "a frame flooded from switch %d comes back to it" % (s + 1)); return
        elif d in comp and got[d] == 0:
          self.fail("flood-misses-switch", "a frame flooded from switch %d never reaches switch %d (same component); NO_FLOOD ports %r"
                    % (s + 1, d + 1, self.noflood())); return
        elif got[d] > 1:
          self.fail("flood-duplicates", "a frame flooded from switch %d reaches switch %d %d times; NO_FLOOD ports %r" % (s + 1, d + 1, got[d], self.noflood())); return
      # host-facing ports must flood: every other live switch's host port gets the frame iff reached
      hp = set((sw, port) for sw, port, f in delivered)
      for d in live:
        if d != s and d in comp and got[d] == 1 and (d, self.nports[d]) not in hp:
          self.fail("edge-port-not-flooding", "switch %d received the flooded frame but did not deliver it on its host-facing port" % (d + 1)); return
    # 4. every port of a connected switch that is on no physical link (in either direction) is host-facing - whether
    #    it always was or a cable has since been unplugged from it - and must have flooding enabled (NO_FLOOD bit of
    #    the real switch).  Recorded without ending the history.
    onlink = set()
    for (a, pa, b, pb) in phys: onlink.add((a - 1, pa)); onlink.add((b - 1, pb))
    for (i, port) in self.noflood():
      if i in live and (i, port) not in onlink:
        kind = "port-was-on-a-link" if (i, port) in self.was_linked else "host-port"
        self.soft.append(("%s:H:edge-port-not-flooding:%s" % (PID, kind),
                          "port %d of switch %d is on no link (a host may be attached) but has flooding disabled" % (port, i + 1)))
        break


def h_run (topo, hist, fault=None):
  """Runs one history; fault (if any) accompanies its last event.  Returns (violations, outcome, world)."""
  w = HWorld(topo)
  if w.bad: return w.bad, ("init",), w
  w.check(0)
  if w.bad or w.soft: return [(k + ":initial", what) for k, what in w.bad + w.soft], ("init",), w
  out = None
  for n, op in enumerate(hist):
    if tuple(op) not in w.ops(): return None, None, w
    out = w.apply(tuple(op), fault if n == len(hist) - 1 else None)
    if w.bad: break
  soft = []
  for k, what in w.soft:
    if k not in [x for x, _ in soft]: soft.append((k, what))
  return w.bad + soft, out, w


def fault_plan (w, quick):
  """The channel-break faults worth running after a fault-free run: (switch, message type, k) for every k-th write of
  that type the controller made to that switch while it absorbed the last event (a fault at a write that never
  happens is the fault-free run)."""
  plan = []
  for i in sorted(w.writes):
    for t, kmax in (FAULT_TYPES_QUICK if quick else FAULT_TYPES_THOROUGH):
      for k in range(1, min(kmax, w.writes[i].count(t)) + 1): plan.append((i, t, k))
  return plan


def _h_worker (items):
  from mc.env import boot
  boot()
  rep = Report(PID, "model_checking")
  for topo, hist, faults, quick in items:
    bad, out, w = h_run(topo, hist)
    if bad is None: continue
    rep.evaluations += 1; rep.transitions += len(hist)
    rep.outcome(("H", topo, hist[-1] if hist else None, out, tuple(k for k, _ in bad)))
    for k, what in bad:
      rep.violation(k, what + " [%s after %r]" % (topo, list(hist)), dict(part="H", topo=topo, history=[list(o) for o in hist]))
    if len(hist) == 2 and rep.evaluations % 50 == 1: rep.sample(dict(part="H", topo=topo, history=[list(o) for o in hist], no_flood=out))
    if not (faults and hist) or [k for k, _ in bad if ":edge-port-not-flooding:port-was-on-a-link" not in k]: continue
    for f in fault_plan(w, quick):
      fbad, fout, fw = h_run(topo, hist, f)
      rep.evaluations += 1; rep.transitions += len(hist)
      fname = (f[0], W.TYPE_NAMES[f[1]], f[2])
      rep.outcome(("HF", topo, hist[-1], fname, fout, tuple(k for k, _ in fbad)))
      for k, what in fbad:
        rep.violation(k, what + " [%s after %r, where during the last event the controller's write no. %d of %s to switch %d fails and the switch is gone]"
                      % (topo, list(hist), f[2], fname[1], f[0] + 1), dict(part="H", topo=topo, history=[list(o) for o in hist], fault=list(f)))
  rep.state_count = rep.evaluations
  return rep


def h_items (quick):
  items = []
  plan = (("triangle", 3 if quick else 4, 1 if quick else 2), ("square+diag", 2 if quick else 3, 1),
          ("triangle@3", 2 if quick else 3, 1), ("triangle@1", 1 if quick else 2, 1),
          ("triangle;dark", 2 if quick else 3, 1 if quick else 2))
  if not quick: plan += (("triangle;carrier", 3, 1), ("square+diag;dark", 2, 1), ("triangle;dark@3", 2, 1))
  for topo, depth, fdepth in plan:
    base = topo.partition("@")[0].partition(";")[0]
    dark = ";dark" in topo
    nl = len(TOPOS[base][1]); ns = len(TOPOS[base][0])
    alpha = [(st, i) for i in range(nl) for st in ("down", "up", "ab", "ba")] + \
            [("disc", i) for i in range(ns)] + [("conn", i) for i in range(ns)]
    for d in range(0, depth + 1):
      for h in itertools.product(alpha, repeat=d):
        # cheap static filter of impossible histories; h_run re-checks enabledness
        st = {}
        ok = True
        for k, i in h:
          if k in ("disc", "conn"):
            cur = st.get(("s", i), True)
            if cur != (k == "disc"): ok = False; break
            st[("s", i)] = not cur
          else:
            if st.get(("l", i), "down" if dark else "up") == k: ok = False; break
            st[("l", i)] = k
        if not ok: continue
        # histories of up to fdepth events are also run with a channel-break fault accompanying their last event
        # (spawned by the worker from what the fault-free run wrote), and with a terminal reconnect-overlap event
        items.append((topo, h, 0 < d <= fdepth, quick))
        if d <= fdepth and d < depth:
          for i in range(ns):
            if st.get(("s", i), True): items.append((topo, h + (("reconn", i),), False, quick))
  return items


# =====================================================================================================
# Part P: probe codec
# =====================================================================================================
def _p_worker (dpids):
  from mc.env import boot, VClock, ControllerStack
  boot()
  rep = Report(PID, "model_checking")
  clock = VClock()
  cs = ControllerStack(clock)
  ev = []
  D, ST, disc = controller_components(clock, ev)
  import pox.openflow.libopenflow_01 as of
  import pox.openflow as ofm
  ports = (1, 2, 9, 10, 255, 256, 12337, 0xfeff, 0xff00)
  class C (object): pass
  rx = StubCon(0x77, 4, clock); cs.nexus._connections[0x77] = rx
  for dpid in dpids:
    src = StubCon(dpid, 1, clock); cs.nexus._connections[dpid] = src
    for port in ports:
      rep.evaluations += 1; rep.transitions += 1
      disc.adjacency.clear(); del ev[:]
      bad = None
      try:
        eth = D.LLDPSender._create_discovery_packet(dpid, port, b"\x02\x00\x00\x00\x00\x01", 120)
        raw = eth.pack()
        pin = of.ofp_packet_in(in_port=3, data=raw)
        e = ofm.PacketIn(rx, pin)
        disc._handle_openflow_PacketIn(e)
        got = [tuple(l) for l in disc.adjacency]
        want = [(dpid, port, 0x77, 3)]
        if got != want: bad = ("probe-decoded-wrong", "probe for dpid %#x port %d was decoded as link %r" % (dpid, port, got))
      except Exception as ex:
        bad = ("probe-raised:%s" % type(ex).__name__, "probe for dpid %#x port %d: %r" % (dpid, port, ex))
      rep.outcome(("P", dpid & 0xff, port, bad and bad[0]))
      if bad:
        cls = "port>=256" if port >= 256 else "port<256"
        rep.violation("%s:P:%s:%s" % (PID, bad[0], cls), bad[1], dict(part="P", dpid=dpid, port=port))
    del cs.nexus._connections[dpid]
  rep.state_count = rep.evaluations
  return rep


def _p2_worker (items):
  """Probes as they arrive over a medium: the frame the sender built, followed by k bytes of padding (Ethernet pads
  frames to its minimum size; everything after the End-Of-LLDPDU TLV is to be ignored by the receiver)."""
  from mc.env import boot, VClock, ControllerStack
  boot()
  rep = Report(PID, "model_checking")
  clock = VClock()
  cs = ControllerStack(clock)
  ev = []
  D, ST, disc = controller_components(clock, ev)
  import pox.openflow.libopenflow_01 as of
  import pox.openflow as ofm
  rx = StubCon(0x77, 4, clock); cs.nexus._connections[0x77] = rx
  for dpid, port, pad in items:
    src = StubCon(dpid, [port], clock); cs.nexus._connections[dpid] = src
    rep.evaluations += 1; rep.transitions += 1
    disc.adjacency.clear(); del ev[:]
    bad = None
    try:
      raw = D.LLDPSender._create_discovery_packet(dpid, port, b"\x02\x00\x00\x00\x00\x01", 120).pack()
      k = max(0, int(pad[2:]) - len(raw)) if isinstance(pad, str) else pad
      e = ofm.PacketIn(rx, of.ofp_packet_in(in_port=3, data=raw + bytes(k)))
      disc._handle_openflow_PacketIn(e)
      got = [tuple(l) for l in disc.adjacency]
      if got != [(dpid, port, 0x77, 3)]:
        bad = ("padded-probe-not-decoded" if not got else "padded-probe-decoded-wrong",
               "probe for dpid %#x port %d (%d bytes) followed by %d bytes of padding was decoded as link %r" % (dpid, port, len(raw), k, got))
    except Exception as ex:
      bad = ("padded-probe-raised:%s" % type(ex).__name__, "probe for dpid %#x port %d with padding %r: %r" % (dpid, port, pad, ex))
    rep.outcome(("P2", len(hex(dpid)), len(str(port)), pad, bad and bad[0]))
    if bad: rep.violation("%s:P:%s" % (PID, bad[0]), bad[1], dict(part="P2", dpid=dpid, port=port, pad=pad))
    if rep.evaluations % 2000 == 1: rep.sample(dict(part="P2", dpid=dpid, port=port, pad=pad, decoded=not bad))
    del cs.nexus._connections[dpid]
  rep.state_count = rep.evaluations
  return rep


def p2_items (quick):
  """Every probe length class (1..16 hex digits of dpid x 1..5 decimal digits of port) x every padding length 0..24 and
  padding up to the 60- and 64-byte minimum frame sizes."""
  dpids = []
  for k in range(1, 17):
    for d in (int("1" + "0" * (k - 1), 16), int("f" * k, 16)):
      if d != 0x77 and d not in dpids: dpids.append(d)
  ports = (1, 10, 100, 1000, 10000, 0xff00)
  pads = list(range(0, 25)) + ["to60", "to64"]
  return [(d, p, k) for d in dpids for p in ports for k in pads]


def p_items (quick):
  vals = (0, 1, 0x80, 0xff)
  out = set()
  if quick:
    # all 8 bytes (the two above the 48-bit MAC part included) over {0,1,0xff}; plus 0x80 in the low six
    for bs in itertools.product((0, 1, 0xff), repeat=8): out.add(int.from_bytes(bytes(bs), "big"))
    for bs in itertools.product(vals, repeat=6): out.add(int.from_bytes(bytes((0, 0) + bs), "big"))
  else:
    for bs in itertools.product(vals, repeat=8): out.add(int.from_bytes(bytes(bs), "big"))
  return sorted(d for d in out if d and d != 0x77)


# =====================================================================================================
def run (cfg):
  from mc.env import boot
  boot()
  rep = Report(PID, "model_checking")
  only = cfg.only
  if not only or only == "G":
    gi = graph_items(cfg.quick)
    for r in pmap(_g_worker, split(gi, cfg.workers * 8), cfg.workers, seed=cfg.seed): rep.merge(r)
    rep.extra["graphs"] = len(gi)
  if not only or only == "H":
    hi = h_items(cfg.quick)
    for r in pmap(_h_worker, split(hi, cfg.workers * 4), cfg.workers, seed=cfg.seed): rep.merge(r)
    rep.extra["histories"] = len(hi)
  if not only or only == "P":
    pi = p_items(cfg.quick)
    for r in pmap(_p_worker, split(pi, cfg.workers * 2), cfg.workers, seed=cfg.seed): rep.merge(r)
    rep.extra["probe_dpids"] = len(pi)
    p2 = p2_items(cfg.quick)
    for r in pmap(_p2_worker, split(p2, cfg.workers), cfg.workers, seed=cfg.seed): rep.merge(r)
    rep.extra["padded_probes"] = len(p2)
  rep.rule = ("G: every multigraph on 2-4 switches (thorough: 5 with a 4-element pair alphabet) where each unordered pair is one of "
              "%r, dpids in and against sorted order, run through the real _calc_spanning_tree/_update_tree; the graphs on 2-3 (thorough 4) switches again with "
              "the ports numbered %r (254.., OFPP_MAX-1 downwards, OFPP_MAX downwards, cable ports ending at OFPP_MAX), and the graphs on 2-3 switches with every "
              "non-empty assignment of %r (a cable between two ports of one switch) to the switches; own flood simulation over "
              "the physical links. H: every enabled sequence of <=%d events {a link goes down / up / one-way in either direction, switch disconnect/connect} on a triangle and a "
              "square with a diagonal (and the triangle again with Discovery(link_timeout=3) and (link_timeout=1), and started dark: the switches connect with all cables unplugged "
              "and report carrier changes by PortStatus) in netsim with real LLDP probes and the real FLOOD action, every second cable an Ethernet medium that pads frames to 60 bytes; "
              "histories of <=%d events also (a) followed by a reconnect-overlap event per switch (new control session up before the old one is reported down) and (b) with a "
              "channel-break fault accompanying the last event: for every switch and message type in %r the controller's k-th write of that type fails with EPIPE, the switch is gone "
              "and the select loop closes the connection when the running handler returns; "
              "after every event the components' own timers (probe sender, link expiry, delayed port checks) run on the virtual clock for two link timeouts plus a check period. P: probe encode->decode for dpids with "
              "bytes in {0,1,0x80,0xff} x ports (1,2,9,10,255,256,12337,0xfeff,0xff00); every probe length class (1-16 hex digits of dpid x 1-5 digits of port) followed by "
              "0..24 bytes of padding and padded to 60 and 64 bytes. distinct = (part, observation, verdict)"
              % (list(PAIR_QUICK), list(NUMBERINGS[1:]), list(SELF_KINDS[1:]), 3 if cfg.quick else 4, 1 if cfg.quick else 2,
                 [(W.TYPE_NAMES[t], k) for t, k in (FAULT_TYPES_QUICK if cfg.quick else FAULT_TYPES_THOROUGH)]))
  rep.bound = dict(graph_switches=4 if cfg.quick else 5, history_depth=dict(triangle=3 if cfg.quick else 4, square_diag=2 if cfg.quick else 3, triangle_dark=2 if cfg.quick else 3),
                   fault_history_depth=1 if cfg.quick else 2)
  rep.assumptions = ["discovery settles through three send cycles 4 s apart, an expiry check and one more cycle (virtual clock)",
                     "a reconnecting switch comes back with flooding enabled on all ports and an empty flow table; a switch whose control session is merely re-established keeps both",
                     "a switch whose control channel breaks is gone (dataplane included) from the failing write on",
                     "one-way link states are silent (no carrier change); padding bytes are zero"]
  return rep


def replay (cfg, data):
  from mc.env import boot, VClock
  boot()
  if data["part"] == "G":
    bad, obs = run_graph(data["n"], tuple(data["pairs"]), tuple(data["dpids"]), VClock,
                         data.get("selfs") and tuple(data["selfs"]), data.get("numbering", "low"))
    return bool(bad), "graph %r on %r -> NO_FLOOD ports %r\n%r" % (data["pairs"], data["dpids"], obs, bad)
  if data["part"] == "H":
    f = data.get("fault")
    bad, out, w = h_run(data["topo"], [tuple(o) for o in data["history"]], f and tuple(f))
    return bool(bad), "%s history %r fault %r -> %r\n%r" % (data["topo"], data["history"], f, out, bad)
  if data["part"] == "P2":
    pad = data["pad"]
    rep = _p2_worker([(data["dpid"], data["port"], pad)])
    return bool(rep.violations), repr(rep.violations)
  rep = _p_worker([data["dpid"]])
  return bool(rep.violations), repr(rep.violations)
