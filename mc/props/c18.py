"""C18 - packet buffers are unique, released exactly once, and bounded.

Explicit-state BFS (replay based, mc.engine.bfs) over histories of frame arrivals (table miss and
output:CONTROLLER flows), packet-outs and flow-mods naming buffers (live, stale, bogus ids) and
set-config, on a real SoftwareSwitch behind the byte-level connection, for every pool size in the
bound.  Reference: a dict id -> frame bytes.
"""
import struct
from mc.engine import bfs
from mc.report import Report, digest
from mc.refs import ofwire as W

PID = "C18"
TARGET = 5                      # port that never receives frames; packet-outs go there
MAC_NEW = bytes.fromhex("02dddddddddd")


def frame (port, size, tag):
  if port == 3:
    # an IPv4/UDP frame: the flow on port 3 rewrites payload-level fields AFTER its output:CONTROLLER action
    from mc.props.c11 import udp_frame
    return udp_frame(bytes.fromhex("02000000bb03"), bytes.fromhex("02000000aa03"), tag=tag, size=size - 42)
  f = bytes.fromhex("02000000aa%02x" % port) + bytes.fromhex("02000000bb%02x" % port) + b"\x88\xb5"
  body = bytes([tag, port]) + bytes((i * 7 + tag) & 0xff for i in range(size - 16))
  return f + body


class World (object):
  def __init__ (self, pool):
    from mc.env import SwitchStack, VClock
    self.pool = pool
    self.st = SwitchStack(dpid=1, ports=5, clock=VClock(), max_buffers=pool, miss_send_len=128)
    self.xid = 100
    self.miss_len = 128
    self.out = {}               # model: outstanding id -> (frame bytes, in_port)
    self.ftag = {}              # frame bytes -> the tag it was built with
    self.last_used = None
    self.bad = []
    # flows sending to the controller
    setup = [
      W.flow_mod(1, W.match_fields(in_port=2), W.OFPFC_ADD, W.a_output(W.OFPP_CONTROLLER, 64)),
      W.flow_mod(2, W.match_fields(in_port=3), W.OFPFC_ADD,
                 W.a_output(W.OFPP_CONTROLLER, 0) + W.a_set_dl_dst(MAC_NEW) + W.a_set_nw_tos(0x20) + W.a_set_tp_dst(99)
                 + W.a_output(TARGET)),
      W.flow_mod(3, W.match_fields(in_port=4), W.OFPFC_ADD, W.a_output(W.OFPP_CONTROLLER, 0xffff)),
      W.features_request(4),
    ]
    for m in setup: self.st.feed(m)
    msgs, rest = W.split(self.st.drain())
    fr = [W.decode(m) for m in msgs if m[1] == W.FEATURES_REPLY]
    if len(fr) != 1 or fr[0]["n_buffers"] != pool:
      self.fail("features:n_buffers", "features reply advertises %r buffers, pool is %d" % (fr and fr[0]["n_buffers"], pool))

  def fail (self, clause, what):
    self.bad.append(("%s:%s" % (PID, clause), what))

  def nxid (self):
    self.xid += 1; return self.xid

  def free_tag (self):
    used = set(self.ftag[f[0]] for f in self.out.values())
    t = 0
    while t in used: t += 1
    return t

  # ---- operations --------------------------------------------------------
  def ops (self):
    o = [("rx", 1, 60), ("rx", 1, 200), ("rx", 2, 200), ("rx", 3, 100), ("rx", 4, 200)]
    ids = sorted(self.out)
    cand = list(ids)
    for k in (self.last_used, 0, self.pool + 1, 999):
      if k is not None and k not in cand: cand.append(k)
    for k in cand:
      o.append(("pout", k)); o.append(("fmod", k))
    for k in ids:
      # release a live buffer through FLOOD (the stored ingress port must be excluded) and through
      # output:CONTROLLER (the release itself buffers the packet again while the old slot is still held)
      o.append(("poutf", k)); o.append(("poutc", k))
      # MODIFY / MODIFY_STRICT carrying a buffer: applies to the packet whether it modified an entry or acted as ADD
      o.append(("fmodm", k)); o.append(("fmods", k))
      # an action list the switch refuses half way (output, then a vendor action): the id is used up all the same
      o.append(("poutv", k))
      # dropping a buffered packet: packet-out naming it with an empty action list
      o.append(("poutd", k))
    for v in (0, 64, 128, 0xffff):
      if v != self.miss_len: o.append(("cfg", v))
    # a frame that comes in a packet-out, is rewritten by the action list and resubmitted to the (missing) table
    o.append(("poutt", "dl")); o.append(("poutt", "vlan"))
    return o

  def apply (self, op):
    self.bad = []
    kind = op[0]
    st = self.st
    if kind == "cfg":
      st.feed(W.set_config(self.nxid(), 0, op[1])); self.miss_len = op[1]
      out = st.drain()
      if out: self.fail("cfg:unexpected-output", "set-config produced output")
      return ("cfg",)
    if kind == "rx":
      _, port, size = op
      tag = self.free_tag()
      f = frame(port, size, tag); self.ftag[f] = tag
      st.rx(f, port)
      msgs, rest = W.split(st.drain())
      ds = [W.decode(m) for m in msgs]
      pins = [d for d in ds if d["type"] == W.PACKET_IN]
      emitted = st.take_out()
      if len(pins) != 1:
        self.fail("rx:packet-in-count", "frame on port %d produced %d packet-ins" % (port, len(pins))); return ("rx", len(pins))
      p = pins[0]
      limit = {1: self.miss_len, 2: 64, 3: 0, 4: 0xffff}[port]
      reason = W.OFPR_NO_MATCH if port == 1 else W.OFPR_ACTION
      if p["in_port"] != port or p["reason"] != reason:
        self.fail("rx:packet-in-fields", "packet-in in_port/reason %r/%r, expected %r/%r" % (p["in_port"], p["reason"], port, reason))
      if p["total_len"] != len(f):
        self.fail("rx:total-len", "packet-in total_len %d, the frame has %d bytes (data %d bytes, %s)"
                  % (p["total_len"], len(f), len(p["data"]), "buffered" if p["buffer_id"] != W.NO_BUFFER else "unbuffered"))
      if p["buffer_id"] == W.NO_BUFFER:
        if len(self.out) < self.pool:
          self.fail("rx:not-buffered", "packet-in without a buffer id although %d of %d buffers are free" % (self.pool - len(self.out), self.pool))
        if p["data"] != f:
          self.fail("rx:unbuffered-truncated", "unbuffered packet-in carries %d of %d bytes" % (len(p["data"]), len(f)))
      else:
        bid = p["buffer_id"]
        if bid in self.out:
          self.fail("rx:duplicate-id", "buffer id %d handed out while still outstanding" % bid)
        if len(self.out) >= self.pool:
          self.fail("rx:over-capacity", "buffer id %d handed out with %d outstanding and %d advertised" % (bid, len(self.out), self.pool))
        if not f.startswith(p["data"]) or len(p["data"]) > limit:
          self.fail("rx:data-length", "buffered packet-in carries %d bytes (limit %d) / not a prefix of the frame" % (len(p["data"]), limit))
        self.out[bid] = (f, port)
      if port == 3:
        # (the rewritten copy's bytes beyond the destination address are C12's business)
        if [(a, b[:6], len(b)) for a, b in emitted] != [(TARGET, MAC_NEW, len(f))]:
          self.fail("rx:action-list-output", "flow [controller, set_dl_dst, set_nw_tos, set_tp_dst, output] emitted %r" % ([(a, b[:8].hex()) for a, b in emitted],))
      elif emitted:
        self.fail("rx:unexpected-emission", "frame sent to the controller was also emitted on %r" % [a for a, b in emitted])
      return ("rx", p["buffer_id"] != W.NO_BUFFER, len(p["data"]))
    if kind == "poutt":
      tag = self.free_tag()
      f = frame(1, 200, tag)
      if op[1] == "dl":
        acts = W.a_set_dl_dst(MAC_NEW); g = MAC_NEW + f[6:]
      else:
        acts = W.a_set_vlan_vid(5); g = f[:12] + b"\x81\x00\x00\x05" + f[12:]
      self.ftag[g] = tag
      st.feed(W.packet_out(self.nxid(), acts + W.a_output(W.OFPP_TABLE), f, in_port=1))
      emitted = st.take_out()
      msgs, rest = W.split(st.drain())
      ds = [W.decode(m) for m in msgs]
      pins = [d for d in ds if d["type"] == W.PACKET_IN]
      if emitted: self.fail("rx:unexpected-emission", "a packet-out resubmitted to an empty-handed table emitted frames on %r" % [a for a, b in emitted])
      if len(pins) != 1 or any(d["type"] == W.ERROR for d in ds):
        self.fail("rx:packet-in-count", "packet-out [rewrite, output:TABLE] that misses produced %d packet-ins / %d errors"
                  % (len(pins), len([d for d in ds if d["type"] == W.ERROR]))); return ("poutt", len(pins))
      p = pins[0]
      if p["in_port"] != 1 or p["reason"] != W.OFPR_NO_MATCH:
        self.fail("rx:packet-in-fields", "packet-in in_port/reason %r/%r, expected 1/no-match" % (p["in_port"], p["reason"]))
      if p["total_len"] != len(g):
        self.fail("rx:total-len", "packet-in total_len %d, the resubmitted (rewritten) frame has %d bytes" % (p["total_len"], len(g)))
      if p["buffer_id"] == W.NO_BUFFER:
        if len(self.out) < self.pool:
          self.fail("rx:not-buffered", "packet-in without a buffer id although %d of %d buffers are free" % (self.pool - len(self.out), self.pool))
        if p["data"] != g:
          self.fail("rx:unbuffered-truncated", "unbuffered packet-in carries %d bytes that are not the %d-byte rewritten frame" % (len(p["data"]), len(g)))
      else:
        bid = p["buffer_id"]
        if bid in self.out: self.fail("rx:duplicate-id", "buffer id %d handed out while still outstanding" % bid)
        if len(self.out) >= self.pool:
          self.fail("rx:over-capacity", "buffer id %d handed out with %d outstanding and %d advertised" % (bid, len(self.out), self.pool))
        if not g.startswith(p["data"]) or len(p["data"]) > self.miss_len:
          self.fail("rx:data-length", "buffered packet-in carries %d bytes (limit %d) / not a prefix of the rewritten frame" % (len(p["data"]), self.miss_len))
        self.out[bid] = (g, 1)
      return ("poutt", p["buffer_id"] != W.NO_BUFFER, len(p["data"]))
    # buffer use
    k = op[1]
    if kind == "poutd":
      st.feed(W.packet_out(self.nxid(), b"", b"", buffer_id=k, in_port=W.OFPP_NONE))
      emitted = st.take_out()
      msgs, rest = W.split(st.drain())
      if emitted or msgs:
        self.fail("use:drop-not-silent", "packet-out (buffer %d, no actions) emitted %d frames / %d messages" % (k, len(emitted), len(msgs)))
      self.out.pop(k); self.last_used = k
      return ("use-drop",)
    if kind == "poutv":
      f, inp = self.out[k]
      st.feed(W.packet_out(self.nxid(), W.a_output(TARGET) + W.a_vendor(0x2320, b"\0\0\0\0"), b"", buffer_id=k, in_port=W.OFPP_NONE))
      emitted = st.take_out()
      msgs, rest = W.split(st.drain())
      ds = [W.decode(m) for m in msgs]
      if not any(d["type"] == W.ERROR and d["etype"] == W.OFPET_BAD_ACTION for d in ds):
        self.fail("use:vendor-action-not-refused", "an action list with an unknown vendor action was not answered with a bad-action error")
      if emitted not in ([], [(TARGET, f)]):
        self.fail("use:wrong-frame", "refused action list on buffer %d emitted %r" % (k, [(a, len(b)) for a, b in emitted]))
      self.out.pop(k); self.last_used = k
      return ("use-refused", len(emitted))
    if kind in ("poutf", "poutc"):
      f, inp = self.out[k]
      acts = W.a_output(W.OFPP_FLOOD) if kind == "poutf" else W.a_output(W.OFPP_CONTROLLER, 64)
      st.feed(W.packet_out(self.nxid(), acts, b"", buffer_id=k, in_port=W.OFPP_NONE))
      emitted = st.take_out()
      msgs, rest = W.split(st.drain())
      ds = [W.decode(m) for m in msgs]
      if any(d["type"] == W.ERROR for d in ds):
        self.fail("use:error-for-live-id", "%s with live buffer %d was answered with an error" % (kind, k))
      pins = [d for d in ds if d["type"] == W.PACKET_IN]
      if kind == "poutf":
        want = [(p, f) for p in range(1, 6) if p != inp]
        if sorted(emitted) != sorted(want):
          self.fail("use:flood-from-buffer", "releasing buffer %d (frame received on port %d) with FLOOD emitted on %r, expected every port but %d"
                    % (k, inp, sorted(p for p, _ in emitted), inp))
        if pins: self.fail("use:packet-in", "releasing a buffer with FLOOD produced a packet-in")
        self.out.pop(k); self.last_used = k
        return ("use-flood", len(emitted))
      # output:CONTROLLER from a buffered packet: a new packet-in for the same frame; slot k is still held while the
      # action runs, so the new id (if any slot is free) differs from k and from every outstanding id
      if emitted: self.fail("use:unexpected-emission", "releasing a buffer to the controller emitted frames on %r" % [p for p, _ in emitted])
      if len(pins) != 1:
        self.fail("use:packet-in-count", "releasing buffer %d to the controller produced %d packet-ins" % (k, len(pins)))
        self.out.pop(k); self.last_used = k
        return ("use-ctl", len(pins))
      p = pins[0]
      if p["in_port"] != inp or p["reason"] != W.OFPR_ACTION or p["total_len"] != len(f):
        self.fail("use:packet-in-fields", "packet-in for the re-sent buffer: in_port %r reason %r total_len %r, expected %r/%r/%r"
                  % (p["in_port"], p["reason"], p["total_len"], inp, W.OFPR_ACTION, len(f)))
      if p["buffer_id"] == W.NO_BUFFER:
        if len(self.out) < self.pool:
          self.fail("rx:not-buffered", "re-sent packet not buffered although %d of %d buffers are free" % (self.pool - len(self.out), self.pool))
        if p["data"] != f: self.fail("rx:unbuffered-truncated", "unbuffered packet-in carries %d of %d bytes" % (len(p["data"]), len(f)))
        self.out.pop(k)
      else:
        nb = p["buffer_id"]
        if nb in self.out:
          self.fail("rx:duplicate-id", "buffer id %d handed out while still outstanding (during the release of buffer %d)" % (nb, k))
        if not f.startswith(p["data"]) or len(p["data"]) > 64:
          self.fail("rx:data-length", "buffered packet-in carries %d bytes (limit 64) / not a prefix of the frame" % len(p["data"]))
        self.out.pop(k)
        self.out[nb] = (f, inp)
      self.last_used = k
      return ("use-ctl", p["buffer_id"] != W.NO_BUFFER)
    if kind == "pout":
      st.feed(W.packet_out(self.nxid(), W.a_output(TARGET), b"", buffer_id=k, in_port=W.OFPP_NONE))
    else:
      cmd = {"fmod": W.OFPFC_ADD, "fmodm": W.OFPFC_MODIFY, "fmods": W.OFPFC_MODIFY_STRICT}[kind]
      st.feed(W.flow_mod(self.nxid(), W.match_fields(in_port=TARGET, dl_type=0x9999), cmd, W.a_output(TARGET), buffer_id=k))
    emitted = st.take_out()
    msgs, rest = W.split(st.drain())
    ds = [W.decode(m) for m in msgs]
    if any(d["type"] == W.PACKET_IN for d in ds):
      self.fail("use:packet-in", "using a buffer produced a packet-in")
    if k in self.out:
      f, inp = self.out.pop(k)
      self.last_used = k
      if emitted != [(TARGET, f)]:
        if len(emitted) == 1 and emitted[0][0] == TARGET:
          self.fail("use:wrong-frame", "%s with buffer %d emitted a frame that is not the stored one (stored dst %s, emitted dst %s, same tail %s)"
                    % (kind, k, f[:6].hex(), emitted[0][1][:6].hex(), emitted[0][1][6:] == f[6:]))
        else:
          self.fail("use:emission-count", "%s with live buffer %d emitted %d frames" % (kind, k, len(emitted)))
      if any(d["type"] == W.ERROR for d in ds):
        self.fail("use:error-for-live-id", "%s with live buffer %d was answered with an error" % (kind, k))
      return ("use-live", kind)
    else:
      if emitted:
        self.fail("use:stale-id-emits", "%s with unknown/used buffer id %d emitted %d frame(s)" % (kind, k, len(emitted)))
      return ("use-bogus", kind, len([d for d in ds if d["type"] == W.ERROR]))

  def key (self):
    real = tuple(None if x is None else (digest(x[0].pack()), x[1]) for x in self.st.sw._packet_buffer)
    return (self.pool, sorted((k, digest(v[0]), v[1]) for k, v in self.out.items()), self.miss_len,
            self.last_used, real, self.st.sw.miss_send_len, len(self.st.sw.table))


def make_expand (pool):
  def expand (h):
    w = World(pool)
    out = None
    bad0 = list(w.bad)
    for op in h:
      out = w.apply(op)
    bad = w.bad if h else bad0
    # invariant on the real object: never more stored packets than advertised
    stored = sum(1 for x in w.st.sw._packet_buffer if x is not None)
    if stored > pool:
      bad.append(("%s:invariant:over-capacity" % PID, "%d packets stored, %d buffers advertised" % (stored, pool)))
    return dict(key=w.key(), ops=w.ops(), bad=bad, out=out)
  return expand


def run (cfg):
  from mc.env import boot
  boot()
  rep = Report(PID, "model_checking")
  pools = cfg.pick([0, 1, 2, 3], [0, 1, 2, 3, 4])
  depth = cfg.pick(6, 8)
  rep.rule = ("breadth-first search over all histories of <=%d operations {frame miss 60/200 B, frame hitting output:CONTROLLER "
              "flows with max_len 64 / 0 (an IPv4/UDP frame; + set_dl_dst, set_nw_tos, set_tp_dst, output) / 0xffff, packet_out(buffer k) and flow_mod ADD (buffer k) for every "
              "outstanding id, the last used id, 0, pool+1 and 999, release of every outstanding id through FLOOD, output:CONTROLLER, flow_mod MODIFY and MODIFY_STRICT, set_config(miss_send_len in {0,64,128,0xffff})} for pool sizes %r; "
              "canonical state = model + the switch's real buffer slots, config and table size; distinct = (last op, observation)"
              % (depth, pools))
  rep.bound = dict(depth=depth, pools=pools)
  rep.assumptions = ["frames use an ethertype without a parser so POX carries the payload opaquely",
                     "state key contains the whole buffer pool, config and the model, so merged states have equal futures"]
  for pool in pools:
    bfs(make_expand(pool), depth if pool <= 2 else depth - 1, rep, workers=cfg.workers, seed=cfg.seed,
        max_states=cfg.pick(60000, 600000))
  return rep


def replay (cfg, data):
  from mc.env import boot
  boot()
  lines = []
  for pool in ([0, 1, 2, 3, 4]):
    w = World(pool)
    try:
      for op in data["history"]:
        op = tuple(op)
        if op not in w.ops(): raise KeyError(op)
        out = w.apply(op)
        lines.append("pool=%d %r -> %r %s" % (pool, op, out, w.bad))
      if w.bad: return True, "\n".join(lines)
    except KeyError:
      lines.append("pool=%d: history not enabled" % pool)
  return False, "\n".join(lines)
