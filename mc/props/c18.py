"""C18 - packet buffers are unique, released exactly once, and bounded.

Explicit-state BFS (replay based, mc.engine.bfs) over histories of frame arrivals (table miss and
output:CONTROLLER flows), packet-outs and flow-mods naming buffers (live, stale, bogus ids) and
set-config, on a real SoftwareSwitch behind the byte-level connection, for every pool size in the
bound.  Reference: a dict id -> frame bytes.

The alphabet is split into PROFILES, each explored by its own BFS (same world, same oracle, different
operation sets), so that a family of cases does not multiply with every other family:
  base    the histories of the design (all frame kinds, all release forms, set-config)
  sync    delivery mode "the controller answers INSIDE the send() of the packet-in": every operation that makes the
          switch send a packet-in x every buffer-referencing reaction (naming the id just announced, the id being
          released, an older id; or a packet-out that allocates), handled by the switch while the call that sent the
          packet-in is still on its stack.  The reference is sequential: [operation; reaction].
  ports   ingress-port configuration (port-mod, one config bit at a time) x every way a frame reaches the controller
  table   packet-out with data through output:TABLE in every variant: table miss / hit of each send-to-controller
          flow x rewrites before / after / on both sides of the TABLE action
  flowmod flow-mods of every command with a live / stale / bogus / no buffer id against an absent / existing entry
  multi   action lists that reach the controller MORE THAN ONCE while they run (two output:CONTROLLER with a rewrite in
          between; output:CONTROLLER then output:TABLE), as a flow's list, as the list of a packet-out with data and as
          the list that releases a buffer: every packet-in of one list is a buffer of its own
"""
import struct
from mc.engine import bfs
from mc.report import Report, digest
from mc.refs import ofwire as W

PID = "C18"
TARGET = 5                      # port that never receives frames; packet-outs go there
MAC_NEW = bytes.fromhex("02dddddddddd")
MAC_PRE = bytes.fromhex("02eeeeeeeeee")     # written by a packet-out's action list BEFORE its output:TABLE
MAC_POST = bytes.fromhex("02cccccccccc")    # written by a packet-out's action list AFTER its output:TABLE (dl_src)
PROFILES = ("base", "sync", "ports", "table", "flowmod", "multi")
SYNC = "answer-inside-send"
# ingress-port config bits under which the statement does not say whether a frame still reaches the controller
RELAX = W.OFPPC_PORT_DOWN | W.OFPPC_NO_RECV | W.OFPPC_NO_PACKET_IN
ALL_BITS = (W.OFPPC_PORT_DOWN, W.OFPPC_NO_STP, W.OFPPC_NO_RECV, W.OFPPC_NO_RECV_STP, W.OFPPC_NO_FLOOD, W.OFPPC_NO_FWD,
            W.OFPPC_NO_PACKET_IN)
LIMIT = {2: 64, 3: 0, 4: 0xffff}            # max_len of the output:CONTROLLER action of the flow on that port
TWICE = W.a_output(W.OFPP_CONTROLLER, 64) + W.a_set_dl_src(MAC_POST) + W.a_output(W.OFPP_CONTROLLER, 32)
FM_CMD = {"add": W.OFPFC_ADD, "mod": W.OFPFC_MODIFY, "mods": W.OFPFC_MODIFY_STRICT, "del": W.OFPFC_DELETE}


def frame (port, size, tag):
  if port == 3:
    # an IPv4/UDP frame: the flow on port 3 rewrites payload-level fields AFTER its output:CONTROLLER action
    from mc.props.c11 import udp_frame
    return udp_frame(bytes.fromhex("02000000bb03"), bytes.fromhex("02000000aa03"), tag=tag, size=size - 42)
  f = bytes.fromhex("02000000aa%02x" % port) + bytes.fromhex("02000000bb%02x" % port) + b"\x88\xb5"
  body = bytes([tag, port]) + bytes((i * 7 + tag) & 0xff for i in range(size - 16))
  return f + body


def tup (x):
  return tuple(tup(y) for y in x) if isinstance(x, (list, tuple)) else x


class World (object):
  def __init__ (self, pool, prof="base", quick=True):
    from mc.env import SwitchStack, VClock
    self.pool = pool
    self.prof = prof
    self.quick = quick
    self.st = SwitchStack(dpid=1, ports=5, clock=VClock(), max_buffers=pool, miss_send_len=128)
    self.xid = 100
    self.miss_len = 128
    self.out = {}               # model: outstanding id -> (frame bytes, in_port)
    self.ftag = {}              # frame bytes -> the tag it was built with
    self.last_used = None
    self.pcfg = {}              # model: port -> config bits set by port-mod
    self.bad = []
    self.alloc = set()          # frame tags handed out during the running operation
    self.pending = None         # reaction to deliver inside send() of the next packet-in
    self.fired = None
    self.cur = None             # id being released by the running operation
    self.releasing = 0          # 1 while a reaction is judged that ran inside the release of a (then live) buffer
    # flows sending to the controller
    setup = [
      W.flow_mod(1, W.match_fields(in_port=2), W.OFPFC_ADD, W.a_output(W.OFPP_CONTROLLER, 64)),
      W.flow_mod(2, W.match_fields(in_port=3), W.OFPFC_ADD,
                 W.a_output(W.OFPP_CONTROLLER, 0) + W.a_set_dl_dst(MAC_NEW) + W.a_set_nw_tos(0x20) + W.a_set_tp_dst(99)
                 + W.a_output(TARGET)),
      W.flow_mod(3, W.match_fields(in_port=4), W.OFPFC_ADD, W.a_output(W.OFPP_CONTROLLER, 0xffff)),
      W.features_request(4),
    ]
    if prof == "multi":
      # frames of a second ethertype on port 4 go to the controller twice, rewritten in between
      setup.insert(0, W.flow_mod(5, W.match_fields(in_port=4, dl_type=0x88b6), W.OFPFC_ADD, TWICE, priority=0x9000))
    for m in setup: self.st.feed(m)
    msgs, rest = W.split(self.st.drain())
    fr = [W.decode(m) for m in msgs if m[1] == W.FEATURES_REPLY]
    if len(fr) != 1 or fr[0]["n_buffers"] != pool:
      self.fail("features:n_buffers", "features reply advertises %r buffers, pool is %d" % (fr and fr[0]["n_buffers"], pool))
    self.hw = dict((p["port_no"], p["hw_addr"]) for p in fr[0]["ports"]) if fr else {}
    # delivery mode "inside send()": everything the switch writes passes here
    self._send0 = self.st.worker.send
    self.st.worker.send = self._send

  def fail (self, clause, what):
    self.bad.append(("%s:%s" % (PID, clause), what))

  def nxid (self):
    self.xid += 1; return self.xid

  def free_tag (self):
    used = set(self.ftag[f[0]] for f in self.out.values()) | self.alloc
    t = 0
    while t in used: t += 1
    self.alloc.add(t)
    return t

  # ---- the controller that answers inside send() ----------------------------------------------------------------
  def _send (self, data):
    self._send0(data)
    r = self.pending
    if r is None or len(data) < 8 or data[1] != W.PACKET_IN: return
    self.pending = None
    pin = W.decode(bytes(data))
    k = r[1] if len(r) > 1 else None
    if k == "new":
      if pin["buffer_id"] == W.NO_BUFFER: return      # nothing was announced: the reaction does not exist
      r = (r[0], pin["buffer_id"])
    elif k == "cur":
      r = (r[0], self.cur)
    # what the running operation produced so far stays its own; the reaction's output is collected apart
    stash = (self.st.drain(), self.st.take_out())
    obs = self.stim(r)
    self.st.worker.send_buf = stash[0]
    self.st.out = stash[1]
    self.fired = (r, obs)

  # ---- operations --------------------------------------------------------
  def cand (self):
    ids = sorted(self.out)
    cand = list(ids)
    for k in (self.last_used, 0, self.pool + 1, 999):
      if k is not None and k not in cand: cand.append(k)
    return ids, cand

  def ops (self):
    return getattr(self, "ops_" + self.prof)()

  def ops_base (self):
    o = [("rx", 1, 60), ("rx", 1, 200), ("rx", 2, 200), ("rx", 3, 100), ("rx", 4, 200)]
    ids, cand = self.cand()
    for k in cand:
      o.append(("pout", k)); o.append(("fmod", k))
    for k in ids:
      # release a live buffer through FLOOD (the stored ingress port must be excluded) and through
      # output:CONTROLLER (the release itself buffers the packet again)
      o.append(("poutf", k)); o.append(("poutc", k))
      # MODIFY / MODIFY_STRICT carrying a buffer: applies to the packet whether it modified an entry or acted as ADD
      o.append(("fmodm", k)); o.append(("fmods", k))
      # an action list the switch refuses half way (output, then a vendor action): the id is used up all the same
      o.append(("poutv", k))
      # dropping a buffered packet: packet-out naming it with an empty action list
      o.append(("poutd", k))
    for v in (0, 64, 128, 0xffff):
      if v != self.miss_len: o.append(("cfg", v))
    # a frame that comes in a packet-out, is rewritten by the action list and resubmitted to the (missing) table
    o.append(("poutt", "dl")); o.append(("poutt", "vlan"))
    return o

  def ops_sync (self):
    q = self.quick
    pin_ops = [("rx", 1, 200), ("rx", 2, 200), ("rx", 3, 100), ("poutt", "dl")]
    if not q: pin_ops += [("rx", 4, 200), ("poutt", "vlan"), ("ptab", 3, "both")]
    ids = sorted(self.out)
    old = list(ids[:1] if q else ids)
    if self.last_used is not None and self.last_used not in old: old.append(self.last_used)
    react = [("pout", "new"), ("fmod", "new"), ("poutc", "new"), ("poutd", "new"), ("inject",)]
    if not q: react += [("poutf", "new"), ("fmodm", "new"), ("poutv", "new")]
    react += [("pout", k) for k in old]
    o = [("rx", 1, 200), ("rx", 2, 200), ("rx", 3, 100)]
    for p in pin_ops:
      for r in react: o.append(("sync", p, r))
    rel = [("pout", "cur"), ("fmod", "cur"), ("poutc", "cur"), ("poutd", "cur"), ("pout", "new"), ("poutc", "new"), ("inject",)]
    for k in ids:
      o.append(("pout", k)); o.append(("poutc", k))
      for r in rel: o.append(("sync", ("poutc", k), r))
    if self.last_used is not None and self.last_used not in ids: o.append(("pout", self.last_used))
    return o

  def ops_ports (self):
    q = self.quick
    bits = (W.OFPPC_NO_PACKET_IN, W.OFPPC_NO_RECV, W.OFPPC_NO_FWD) if q else ALL_BITS
    o = []
    for port in ((1, 2) if q else (1, 2, 3)):
      for v in (0,) + tuple(bits):
        if self.pcfg.get(port, 0) != v: o.append(("pmod", port, v))
    o += [("rx", 1, 200), ("rx", 2, 200)]
    if not q: o += [("rx", 3, 100)]
    o += [("poutt", "dl"), ("ptab", 2, "T")]
    ids, cand = self.cand()
    for k in ids:
      o.append(("pout", k)); o.append(("poutc", k))
    if self.last_used is not None and self.last_used not in ids: o.append(("pout", self.last_used))
    return o

  def ops_table (self):
    o = [("rx", 1, 200)]
    for port in (1, 2, 3, 4):
      for shape in ("T", "pre", "post", "both"):
        o.append(("ptab", port, shape))
    ids, cand = self.cand()
    for k in ids:
      o.append(("pout", k))
      if not self.quick: o.append(("fmod", k)); o.append(("poutc", k))
    if self.last_used is not None and self.last_used not in ids: o.append(("pout", self.last_used))
    return o

  def ops_flowmod (self):
    o = [("rx", 1, 200), ("rx", 2, 200)]
    ids, cand = self.cand()
    for k in cand:
      if k in (self.pool + 1,) and self.quick: continue
      o.append(("pout", k))
      for c in ("add", "mod", "mods"): o.append(("fm", c, k))
    for c in ("add", "mod", "mods", "del"): o.append(("fm", c, None))
    return o

  def ops_multi (self):
    o = [("rx", 1, 200), ("rx", 2, 200), ("rx2c",), ("inject2",)]
    ids, cand = self.cand()
    for k in ids:
      o.append(("pout", k)); o.append(("poutc", k)); o.append(("poutcc", k)); o.append(("poutct", k))
      if not self.quick: o.append(("fmodcc", k))
    if self.last_used is not None and self.last_used not in ids: o.append(("pout", self.last_used))
    return o

  def table_pins (self, f, inp):
    """the packet-ins the table produces for frame f arriving on (or resubmitted with) port inp: (frame, port, reason, limit)"""
    if inp == 1: return [(f, 1, W.OFPR_NO_MATCH, self.miss_len)]
    if inp == 4 and f[12:14] == b"\x88\xb6" and self.prof == "multi":
      return [(f, 4, W.OFPR_ACTION, 64), (f[:6] + MAC_POST + f[12:], 4, W.OFPR_ACTION, 32)]
    return [(f, inp, W.OFPR_ACTION, LIMIT[inp])]

  def several (self, pins, specs, what, clause="rx:packet-in-count"):
    """the packet-ins of ONE action list, in order; each is judged (and its id noted) before the next"""
    if len(pins) != len(specs):
      self.fail(clause, "%s produced %d packet-ins, expected %d" % (what, len(pins), len(specs)))
      return (len(pins),)
    r = []
    for p, (f, port, reason, limit) in zip(pins, specs):
      self.tag_as(f, specs[0][0])
      self.packet_in(p, f, port, reason, limit)
      r.append((p["buffer_id"] != W.NO_BUFFER, len(p["data"])))
    return tuple(r)

  def tag_as (self, g, f):
    if g not in self.ftag: self.ftag[g] = self.ftag[f]

  # ---- stimulus: calls into pox, returns what the switch did -------------------------------------------------------
  def collect (self, **kw):
    emitted = self.st.take_out()
    msgs, rest = W.split(self.st.drain())
    ds = [W.decode(m) for m in msgs]
    return dict(kw, emitted=emitted, ds=ds, pins=[d for d in ds if d["type"] == W.PACKET_IN],
                errors=[d for d in ds if d["type"] == W.ERROR])

  def stim (self, op):
    kind = op[0]
    st = self.st
    if kind == "sync":
      self.pending = op[2]; self.fired = None
      if op[1][0] == "poutc": self.cur = op[1][1]
      obs = self.stim(op[1])
      obs["fired"] = self.fired
      self.pending = None; self.fired = None; self.cur = None
      return obs
    if kind == "cfg":
      st.feed(W.set_config(self.nxid(), 0, op[1]))
      return self.collect()
    if kind == "pmod":
      st.feed(W.port_mod(self.nxid(), op[1], self.hw.get(op[1], b"\0" * 6), op[2], 0x7f))
      return self.collect()
    if kind == "rx":
      _, port, size = op
      tag = self.free_tag()
      f = frame(port, size, tag); self.ftag[f] = tag
      st.rx(f, port)
      return self.collect(f=f)
    if kind == "rx2c":
      tag = self.free_tag()
      f = frame(4, 200, tag); f = f[:12] + b"\x88\xb6" + f[14:]; self.ftag[f] = tag
      st.rx(f, 4)
      return self.collect(f=f)
    if kind == "inject2":
      tag = self.free_tag()
      f = frame(4, 120, tag); self.ftag[f] = tag
      st.feed(W.packet_out(self.nxid(), TWICE, f, in_port=4))
      return self.collect(f=f)
    if kind == "inject":
      # a packet-out carrying a frame and sending it to the controller: allocates a buffer
      tag = self.free_tag()
      f = frame(4, 120, tag); self.ftag[f] = tag
      st.feed(W.packet_out(self.nxid(), W.a_output(W.OFPP_CONTROLLER, 64), f, in_port=4))
      return self.collect(f=f)
    if kind == "poutt":
      tag = self.free_tag()
      f = frame(1, 200, tag)
      if op[1] == "dl":
        acts = W.a_set_dl_dst(MAC_NEW); g = MAC_NEW + f[6:]
      else:
        acts = W.a_set_vlan_vid(5); g = f[:12] + b"\x81\x00\x00\x05" + f[12:]
      self.ftag[g] = tag
      st.feed(W.packet_out(self.nxid(), acts + W.a_output(W.OFPP_TABLE), f, in_port=1))
      return self.collect(f=f, g=g)
    if kind == "ptab":
      _, port, shape = op
      tag = self.free_tag()
      f = frame(port, 100 if port == 3 else 200, tag)
      g = f; acts = b""
      if shape in ("pre", "both"):
        acts += W.a_set_dl_dst(MAC_PRE); g = MAC_PRE + f[6:]
      acts += W.a_output(W.OFPP_TABLE)
      if shape in ("post", "both"):
        acts += W.a_set_dl_src(MAC_POST) + W.a_output(TARGET)
      self.ftag[g] = tag
      st.feed(W.packet_out(self.nxid(), acts, f, in_port=port))
      return self.collect(f=f, g=g)
    if kind == "fm":
      _, c, k = op
      st.feed(W.flow_mod(self.nxid(), W.match_fields(in_port=TARGET, dl_type=0x9999), FM_CMD[c],
                         b"" if c == "del" else W.a_output(TARGET), buffer_id=W.NO_BUFFER if k is None else k))
      return self.collect()
    # buffer use
    k = op[1]
    if kind == "poutd":
      st.feed(W.packet_out(self.nxid(), b"", b"", buffer_id=k, in_port=W.OFPP_NONE))
    elif kind == "poutv":
      st.feed(W.packet_out(self.nxid(), W.a_output(TARGET) + W.a_vendor(0x2320, b"\0\0\0\0"), b"", buffer_id=k, in_port=W.OFPP_NONE))
    elif kind in ("poutf", "poutc"):
      acts = W.a_output(W.OFPP_FLOOD) if kind == "poutf" else W.a_output(W.OFPP_CONTROLLER, 64)
      st.feed(W.packet_out(self.nxid(), acts, b"", buffer_id=k, in_port=W.OFPP_NONE))
    elif kind == "pout":
      st.feed(W.packet_out(self.nxid(), W.a_output(TARGET), b"", buffer_id=k, in_port=W.OFPP_NONE))
    elif kind == "poutcc":
      st.feed(W.packet_out(self.nxid(), TWICE, b"", buffer_id=k, in_port=W.OFPP_NONE))
    elif kind == "poutct":
      st.feed(W.packet_out(self.nxid(), W.a_output(W.OFPP_CONTROLLER, 64) + W.a_output(W.OFPP_TABLE), b"", buffer_id=k, in_port=W.OFPP_NONE))
    elif kind == "fmodcc":
      st.feed(W.flow_mod(self.nxid(), W.match_fields(in_port=TARGET, dl_type=0x9999), W.OFPFC_ADD, TWICE, buffer_id=k))
    else:
      cmd = {"fmod": W.OFPFC_ADD, "fmodm": W.OFPFC_MODIFY, "fmods": W.OFPFC_MODIFY_STRICT}[kind]
      st.feed(W.flow_mod(self.nxid(), W.match_fields(in_port=TARGET, dl_type=0x9999), cmd, W.a_output(TARGET), buffer_id=k))
    return self.collect()

  # ---- oracle: the sequential reference ---------------------------------------------------------------------------
  def apply (self, op):
    self.bad = []
    self.alloc = set()
    obs = self.stim(op)
    if op[0] != "sync":
      return self.judge(op, obs)
    live = op[1][0] == "poutc" and op[1][1] in self.out
    out = self.judge(op[1], obs)
    fired = obs.get("fired")
    if fired is None:
      return ("sync", out, None)
    # the reaction was handled after the packet-in had been sent: judged as the next operation of the history.  (If
    # that packet-in came from the release of a buffer, the release was still running: its slot may or may not count
    # as free for what the reaction allocates.)
    self.releasing = 1 if live else 0
    out2 = self.judge(fired[0], fired[1])
    self.releasing = 0
    self.bad = [("%s:%s" % (k, SYNC), "(the controller's %r was handled inside the send() of the packet-in of %r) %s"
                 % (fired[0], op[1], what)) for k, what in self.bad]
    return ("sync", out, out2)

  def packet_in (self, p, f, port, reason, limit, what="frame", fields="rx:packet-in-fields", held=None):
    """p announces frame f (received on `port`): check it against the statement and note the id.  `held` = number of
    buffers that may count as occupied (differs from the outstanding ids only while one of them is being released)."""
    if held is None: held = len(self.out) + self.releasing
    if fields == "rx:packet-in-fields":
      if p["in_port"] != port or p["reason"] != reason:
        self.fail(fields, "packet-in in_port/reason %r/%r, expected %r/%r" % (p["in_port"], p["reason"], port, reason))
      if p["total_len"] != len(f):
        self.fail("rx:total-len", "packet-in total_len %d, the %s has %d bytes (data %d bytes, %s)"
                  % (p["total_len"], what, len(f), len(p["data"]), "buffered" if p["buffer_id"] != W.NO_BUFFER else "unbuffered"))
    elif p["in_port"] != port or p["reason"] != reason or p["total_len"] != len(f):
      self.fail(fields, "packet-in for the re-sent buffer: in_port %r reason %r total_len %r, expected %r/%r/%r"
                % (p["in_port"], p["reason"], p["total_len"], port, reason, len(f)))
    if p["buffer_id"] == W.NO_BUFFER:
      if held < self.pool:
        self.fail("rx:not-buffered", "packet-in without a buffer id although %d of %d buffers are free" % (self.pool - held, self.pool))
      if p["data"] != f:
        self.fail("rx:unbuffered-truncated", "unbuffered packet-in carries %d bytes that are not the %d-byte %s" % (len(p["data"]), len(f), what))
      return None
    bid = p["buffer_id"]
    if bid in self.out:
      self.fail("rx:duplicate-id", "buffer id %d handed out while still outstanding" % bid)
    if len(self.out) >= self.pool:
      self.fail("rx:over-capacity", "buffer id %d handed out with %d outstanding and %d advertised" % (bid, len(self.out), self.pool))
    if not f.startswith(p["data"]) or len(p["data"]) > limit:
      self.fail("rx:data-length", "buffered packet-in carries %d bytes (limit %d) / not a prefix of the %s" % (len(p["data"]), limit, what))
    self.out[bid] = (f, port)
    return bid

  def judge (self, op, obs):
    kind = op[0]
    emitted, ds, pins = obs["emitted"], obs["ds"], obs["pins"]
    if kind == "cfg":
      self.miss_len = op[1]
      if ds or emitted: self.fail("cfg:unexpected-output", "set-config produced output")
      return ("cfg",)
    if kind == "pmod":
      self.pcfg[op[1]] = op[2]
      if emitted or pins or obs["errors"]:
        self.fail("cfg:unexpected-output", "port-mod produced %d frames / %d packet-ins / %d errors" % (len(emitted), len(pins), len(obs["errors"])))
      return ("pmod",)
    if kind == "rx":
      _, port, size = op
      f = obs["f"]
      relax = self.pcfg.get(port, 0) & RELAX
      if relax and not pins:
        # the statement does not say whether a frame from such a port reaches the controller; if it does not, nothing
        # may have been stored for it either (the pool is compared with the ids after every operation)
        return ("rx-quiet", len(emitted))
      if len(pins) != 1:
        self.fail("rx:packet-in-count", "frame on port %d produced %d packet-ins" % (port, len(pins))); return ("rx", len(pins))
      p = pins[0]
      limit = self.miss_len if port == 1 else LIMIT[port]
      reason = W.OFPR_NO_MATCH if port == 1 else W.OFPR_ACTION
      self.packet_in(p, f, port, reason, limit)
      if port == 3:
        # (the rewritten copy's bytes beyond the destination address are C12's business)
        if [(a, b[:6], len(b)) for a, b in emitted] != [(TARGET, MAC_NEW, len(f))] and not relax:
          self.fail("rx:action-list-output", "flow [controller, set_dl_dst, set_nw_tos, set_tp_dst, output] emitted %r" % ([(a, b[:8].hex()) for a, b in emitted],))
      elif emitted:
        self.fail("rx:unexpected-emission", "frame sent to the controller was also emitted on %r" % [a for a, b in emitted])
      return ("rx", p["buffer_id"] != W.NO_BUFFER, len(p["data"]))
    if kind == "rx2c":
      if emitted: self.fail("rx:unexpected-emission", "frame sent to the controller was also emitted on %r" % [a for a, b in emitted])
      return ("rx2c",) + self.several(pins, self.table_pins(obs["f"], 4), "a frame hitting a flow [output:CONTROLLER, set_dl_src, output:CONTROLLER]")
    if kind == "inject2":
      f = obs["f"]
      if emitted: self.fail("rx:unexpected-emission", "packet-out [output:CONTROLLER, set_dl_src, output:CONTROLLER] emitted frames on %r" % [a for a, b in emitted])
      if obs["errors"]: self.fail("rx:packet-in-count", "packet-out (data) [output:CONTROLLER, set_dl_src, output:CONTROLLER] was answered with an error")
      return ("inject2",) + self.several(pins, [(f, 4, W.OFPR_ACTION, 64), (f[:6] + MAC_POST + f[12:], 4, W.OFPR_ACTION, 32)],
                                         "packet-out (data) [output:CONTROLLER, set_dl_src, output:CONTROLLER]")
    if kind == "inject":
      f = obs["f"]
      if emitted: self.fail("rx:unexpected-emission", "packet-out [output:CONTROLLER] emitted frames on %r" % [a for a, b in emitted])
      if len(pins) != 1 or obs["errors"]:
        self.fail("rx:packet-in-count", "packet-out (data) [output:CONTROLLER] produced %d packet-ins / %d errors" % (len(pins), len(obs["errors"])))
        return ("inject", len(pins))
      p = pins[0]
      self.packet_in(p, f, 4, W.OFPR_ACTION, 64)
      return ("inject", p["buffer_id"] != W.NO_BUFFER, len(p["data"]))
    if kind == "poutt":
      g = obs["g"]
      relax = self.pcfg.get(1, 0) & RELAX
      if emitted: self.fail("rx:unexpected-emission", "a packet-out resubmitted to an empty-handed table emitted frames on %r" % [a for a, b in emitted])
      if relax and not pins and not obs["errors"]: return ("poutt-quiet",)
      if len(pins) != 1 or obs["errors"]:
        self.fail("rx:packet-in-count", "packet-out [rewrite, output:TABLE] that misses produced %d packet-ins / %d errors"
                  % (len(pins), len(obs["errors"]))); return ("poutt", len(pins))
      p = pins[0]
      self.packet_in(p, g, 1, W.OFPR_NO_MATCH, self.miss_len, what="resubmitted (rewritten) frame")
      return ("poutt", p["buffer_id"] != W.NO_BUFFER, len(p["data"]))
    if kind == "ptab":
      _, port, shape = op
      g = obs["g"]
      relax = self.pcfg.get(port, 0) & RELAX
      # frames: the flow on port 3 emits its rewritten copy; the rest of the packet-out's list emits the packet as the
      # packet-out's own actions left it (what the table did to its copy does not show, and the other way round)
      want = []
      if port == 3: want.append((TARGET, MAC_NEW + g[6:12], len(g)))
      if shape in ("post", "both"): want.append((TARGET, g[:6] + MAC_POST, len(g)))
      got = [(a, b[:12], len(b)) for a, b in emitted]
      if relax and port == 3 and got == want[1:]: want = want[1:]
      if got != want:
        self.fail("table:emission", "packet-out (in_port %d) [%soutput:TABLE%s] emitted %r, expected %r"
                  % (port, "set_dl_dst, " if shape in ("pre", "both") else "", ", set_dl_src, output" if shape in ("post", "both") else "",
                     [(a, b.hex(), n) for a, b, n in got], [(a, b.hex(), n) for a, b, n in want]))
      if relax and not pins and not obs["errors"]: return ("ptab-quiet", len(emitted))
      if len(pins) != 1 or obs["errors"]:
        self.fail("rx:packet-in-count", "packet-out (in_port %d) through output:TABLE produced %d packet-ins / %d errors"
                  % (port, len(pins), len(obs["errors"]))); return ("ptab", len(pins))
      p = pins[0]
      limit = self.miss_len if port == 1 else LIMIT[port]
      reason = W.OFPR_NO_MATCH if port == 1 else W.OFPR_ACTION
      self.packet_in(p, g, port, reason, limit, what="resubmitted frame")
      return ("ptab", p["buffer_id"] != W.NO_BUFFER, len(p["data"]))
    if kind == "fm":
      _, c, k = op
      if k is None:
        if emitted or pins or obs["errors"]:
          self.fail("use:flow-mod-without-buffer", "flow-mod (%s) naming no buffer emitted %d frames / %d packet-ins / %d errors"
                    % (c, len(emitted), len(pins), len(obs["errors"])))
        return ("fm", c)
      return self.judge_use("fmod", k, obs)
    # buffer use
    k = op[1]
    if k not in self.out:
      # unknown or already used: whatever the action list, nothing comes out (on a port or towards the controller)
      if emitted or pins:
        self.fail("use:stale-id-emits", "%s with unknown/used buffer id %r emitted %d frame(s) / %d packet-in(s)" % (kind, k, len(emitted), len(pins)))
      return ("use-bogus", kind, len(obs["errors"]))
    if kind == "poutd":
      if emitted or ds:
        self.fail("use:drop-not-silent", "packet-out (buffer %d, no actions) emitted %d frames / %d messages" % (k, len(emitted), len(ds)))
      self.out.pop(k); self.last_used = k
      return ("use-drop",)
    if kind == "poutv":
      f, inp = self.out[k]
      if not any(d["etype"] == W.OFPET_BAD_ACTION for d in obs["errors"]):
        self.fail("use:vendor-action-not-refused", "an action list with an unknown vendor action was not answered with a bad-action error")
      if emitted not in ([], [(TARGET, f)]):
        self.fail("use:wrong-frame", "refused action list on buffer %d emitted %r" % (k, [(a, len(b)) for a, b in emitted]))
      self.out.pop(k); self.last_used = k
      return ("use-refused", len(emitted))
    if kind in ("poutcc", "poutct", "fmodcc"):
      # a releasing list that reaches the controller twice: id k is used; each packet-in is a buffer of its own (the
      # slot of k may or may not count as free while the list runs)
      f, inp = self.out[k]
      if obs["errors"]: self.fail("use:error-for-live-id", "%s with live buffer %d was answered with an error" % (kind, k))
      if emitted: self.fail("use:unexpected-emission", "releasing a buffer to the controller emitted frames on %r" % [p for p, _ in emitted])
      self.out.pop(k); self.last_used = k
      if kind == "poutct": specs = [(f, inp, W.OFPR_ACTION, 64)] + self.table_pins(f, inp)
      else: specs = [(f, inp, W.OFPR_ACTION, 64), (f[:6] + MAC_POST + f[12:], inp, W.OFPR_ACTION, 32)]
      self.releasing += 1
      r = self.several(pins, specs, "releasing buffer %d through %s" % (k, kind), clause="use:packet-in-count")
      self.releasing -= 1
      return ("use-ctl2", kind) + r
    if kind in ("poutf", "poutc"):
      f, inp = self.out[k]
      if obs["errors"]:
        self.fail("use:error-for-live-id", "%s with live buffer %d was answered with an error" % (kind, k))
      if kind == "poutf":
        want = [(p, f) for p in range(1, 6) if p != inp]
        if sorted(emitted) != sorted(want):
          self.fail("use:flood-from-buffer", "releasing buffer %d (frame received on port %d) with FLOOD emitted on %r, expected every port but %d"
                    % (k, inp, sorted(p for p, _ in emitted), inp))
        if pins: self.fail("use:packet-in", "releasing a buffer with FLOOD produced a packet-in")
        self.out.pop(k); self.last_used = k
        return ("use-flood", len(emitted))
      # output:CONTROLLER from a buffered packet: a new packet-in for the same frame.  The message has used id k; whether
      # slot k counts as free while its own release runs is the implementation's choice (both answers are accepted),
      # but the new id must differ from every OTHER outstanding id
      if emitted: self.fail("use:unexpected-emission", "releasing a buffer to the controller emitted frames on %r" % [p for p, _ in emitted])
      held = len(self.out) + self.releasing
      self.out.pop(k); self.last_used = k
      if self.pcfg.get(inp, 0) & RELAX and not pins: return ("use-ctl-quiet",)
      if len(pins) != 1:
        self.fail("use:packet-in-count", "releasing buffer %d to the controller produced %d packet-ins" % (k, len(pins)))
        return ("use-ctl", len(pins))
      p = pins[0]
      self.packet_in(p, f, inp, W.OFPR_ACTION, 64, fields="use:packet-in-fields", held=held)
      return ("use-ctl", p["buffer_id"] != W.NO_BUFFER)
    return self.judge_use(kind, k, obs)

  def judge_use (self, kind, k, obs):
    emitted, pins = obs["emitted"], obs["pins"]
    if k not in self.out:
      if emitted or pins:
        self.fail("use:stale-id-emits", "%s with unknown/used buffer id %r emitted %d frame(s) / %d packet-in(s)" % (kind, k, len(emitted), len(pins)))
      return ("use-bogus", kind, len(obs["errors"]))
    if pins:
      self.fail("use:packet-in", "using a buffer produced a packet-in")
    f, inp = self.out.pop(k)
    self.last_used = k
    if emitted != [(TARGET, f)]:
      if len(emitted) == 1 and emitted[0][0] == TARGET:
        self.fail("use:wrong-frame", "%s with buffer %d emitted a frame that is not the stored one (stored dst %s, emitted dst %s, same tail %s)"
                  % (kind, k, f[:6].hex(), emitted[0][1][:6].hex(), emitted[0][1][6:] == f[6:]))
      else:
        self.fail("use:emission-count", "%s with live buffer %d emitted %d frames" % (kind, k, len(emitted)))
    if obs["errors"]:
      self.fail("use:error-for-live-id", "%s with live buffer %d was answered with an error" % (kind, k))
    return ("use-live", kind)

  def key (self):
    sw = self.st.sw
    real = tuple(None if x is None else (digest(x[0].pack()), x[1]) for x in sw._packet_buffer)
    k = (self.pool, sorted((k, digest(v[0]), v[1]) for k, v in self.out.items()), self.miss_len,
         self.last_used, real, sw.miss_send_len, len(sw.table))
    if self.prof == "ports":
      k += (tuple(sorted((no, p.config) for no, p in sw.ports.items() if p.config)), tuple(sorted(x for x in self.pcfg.items() if x[1])))
    if self.prof == "flowmod":
      # (what the entries remember of the flow-mods that made them)
      k += (tuple((getattr(e, "buffer_id", None), digest(repr(e.actions))) for e in sw.table.entries),)
    return k


def depth_of (cfg, prof, pool):
  if prof == "base":
    d = cfg.pick(6, 8)
    return d if pool <= 2 else d - 1
  d = cfg.pick(dict(sync=4, ports=5, table=4, flowmod=4, multi=5)[prof], dict(sync=5, ports=5, table=6, flowmod=6, multi=6)[prof])
  return d if pool <= 2 else d - 1


def pools_of (cfg, prof):
  if prof == "base": return cfg.pick([0, 1, 2, 3], [0, 1, 2, 3, 4])
  return cfg.pick([0, 1, 2], [0, 1, 2, 3])


def make_expand (pool, prof="base", quick=True):
  def expand (h):
    w = World(pool, prof, quick)
    out = None
    bad0 = list(w.bad)
    for op in h:
      out = w.apply(op)
    bad = w.bad if h else bad0
    # invariants on the real object: never more stored packets than advertised; the occupied slots are exactly the ids
    # the controller holds (a packet stored under an id nobody was given can never be released: the pool stays short
    # of its advertised size for good; an id the controller holds with nothing behind it cannot be used)
    slots = w.st.sw._packet_buffer
    stored = sum(1 for x in slots if x is not None)
    if stored > pool:
      bad.append(("%s:invariant:over-capacity" % PID, "%d packets stored, %d buffers advertised" % (stored, pool)))
    held = sorted(i + 1 for i, x in enumerate(slots) if x is not None)
    if not bad and held != sorted(w.out):
      bad.append(("%s:invariant:stored-differs-from-ids-given" % PID,
                  "after %r the switch stores packets under ids %r, the ids given to the controller and not yet used are %r"
                  % (h[-1] if h else None, held, sorted(w.out))))
    return dict(key=w.key(), ops=w.ops(), bad=bad, out=out, replay_extra=dict(profile=prof, pool=pool))
  return expand


def run (cfg):
  from mc.env import boot
  boot()
  rep = Report(PID, "model_checking")
  profs = [p for p in PROFILES if not cfg.only or cfg.only == p]
  rep.rule = ("breadth-first search, one per (pool size, profile), over all histories of operations up to the profile's depth.  base: {frame miss 60/200 B, frame hitting output:CONTROLLER "
              "flows with max_len 64 / 0 (an IPv4/UDP frame; + set_dl_dst, set_nw_tos, set_tp_dst, output) / 0xffff, packet_out(buffer k) and flow_mod ADD (buffer k) for every "
              "outstanding id, the last used id, 0, pool+1 and 999, release of every outstanding id through FLOOD, output:CONTROLLER, flow_mod MODIFY and MODIFY_STRICT, a refused list, an empty list, "
              "packet-out [rewrite, output:TABLE] missing, set_config(miss_send_len in {0,64,128,0xffff})}.  sync: every packet-in-producing operation (frames, TABLE miss, release to the controller) x "
              "every reaction {packet_out / flow_mod / release-to-controller / drop naming the id just announced, the id being released, an older id; packet-out(data)[output:CONTROLLER]} "
              "delivered by the connection INSIDE the send() of the packet-in.  ports: port-mod setting one config bit on an ingress port x frames, TABLE resubmission, releases.  "
              "table: packet-out(data, in_port 1..4) [rewrite?, output:TABLE, (rewrite, output)?] missing / hitting each send-to-controller flow.  flowmod: ADD/MODIFY/MODIFY_STRICT/DELETE with live/stale/bogus/no buffer id.  "
              "multi: action lists reaching the controller twice ([output:CONTROLLER, set_dl_src, output:CONTROLLER], [output:CONTROLLER, output:TABLE]) as a flow's list, a packet-out's list and a buffer-releasing list.  "
              "canonical state = model + the switch's real buffer slots, config, port config and table; distinct = (last op, observation)")
  rep.bound = dict((p, dict(pools=pools_of(cfg, p), depth=[depth_of(cfg, p, n) for n in pools_of(cfg, p)])) for p in profs)
  rep.assumptions = ["frames use an ethertype without a parser so POX carries the payload opaquely",
                     "state key contains the whole buffer pool, config and the model, so merged states have equal futures",
                     "a reaction delivered inside send() is judged as the operation that follows the one whose packet-in it answers (sequential reference)",
                     "for a frame from an ingress port configured PORT_DOWN / NO_RECV / NO_PACKET_IN the oracle accepts both a packet-in and none",
                     "while an action list that releases buffer k runs, slot k may or may not count as free (both accepted); the ids it hands out must differ from every other outstanding id"]
  for prof in profs:
    for pool in pools_of(cfg, prof):
      bfs(make_expand(pool, prof, cfg.quick), depth_of(cfg, prof, pool), rep, workers=cfg.workers, seed=cfg.seed,
          max_states=cfg.pick(60000, 600000))
  return rep


def replay (cfg, data):
  from mc.env import boot
  boot()
  lines = []
  hist = [tup(op) for op in data["history"]]
  profs = [data["profile"]] if data.get("profile") in PROFILES else PROFILES
  pools = [data["pool"]] if "pool" in data else [0, 1, 2, 3, 4]
  for prof in profs:
    for quick in (True, False):
      for pool in pools:
        ex = make_expand(pool, prof, quick)
        w = World(pool, prof, quick)
        try:
          for i, op in enumerate(hist):
            if op not in w.ops(): raise KeyError(op)
            out = w.apply(op)
            lines.append("%s pool=%d %r -> %r %s" % (prof, pool, op, out, w.bad))
          r = ex(tuple(hist))
          if r["bad"]:
            lines.append("%s pool=%d: %r" % (prof, pool, r["bad"]))
            return True, "\n".join(lines)
        except KeyError:
          lines.append("%s pool=%d: history not enabled" % (prof, pool))
  return False, "\n".join(lines)
