"""C12 - the datapath applies actions and port rules as OpenFlow 1.0 prescribes.

E-enum over a real SoftwareSwitch behind the byte-level connection (mc.env.SwitchStack):

 A. action lists: every list of <=3 (quick) / <=4 (thorough) actions over a 17-action alphabet (10 header rewrites,
    enqueue, output to a physical port / IN_PORT / TABLE / FLOOD / ALL / CONTROLLER) x a corpus of frames with valid
    lengths and checksums, delivered (a) as a flow entry hit by the frame received on port 1, (b) as a packet-out
    carrying the frame with in_port 1, (c) as a packet-out with in_port NONE; plus boundary arguments and a fixed set
    of length-5/6 lists.  The action list travels as spec-encoded bytes (mc/refs/ofwire.py).  Further frame families
    (ICMP messages of every kind - errors quoting a truncated datagram included -, other tag types and EtherTypes, stacked
    tags) go through the boundary-argument and the long lists in every delivery.  A packet-out is not a reception: rx
    counters stay, OFPP_TABLE or not.
 B. port rules: ingress-port config x egress-port config (all 2^6 combinations of PORT_DOWN, NO_RECV, NO_RECV_STP,
    NO_FLOOD, NO_FWD, NO_PACKET_IN, set through real port-mod messages) x output kind x frames to {unicast, broadcast, 01:80:c2:00:00:00 (802.1D; UDP and
    LLC BPDU), :01, :0e, :0f, :10}.
 C. port-mod: every transition config a -> config b through a masked port-mod, read back from a features reply.
 D. port life-cycle histories (port-mod / delete_port / add_port) before delivery probes; and histories WITH TRAFFIC IN
    BETWEEN: port-mods of one bit or of all of PORT_DOWN/NO_RECV/NO_FLOOD/NO_FWD at once, delete_port, add_port, with the
    whole probe set (outputs, FLOOD, ALL, IN_PORT, a frame from the wire on the port) run - and asserted - before any of them.
 E. value sweeps: one 16-bit word of every checksummed region (IPv4 header, UDP / TCP segment, ICMP message; even and odd
    lengths), the 802.1Q TCI, (tos, ttl), every payload length up to a full datagram (forwarded, sent to the controller,
    as a table miss released from its buffer), every value of the rewrite / max_len arguments and every EtherType (outer, and
    encapsulated in an 802.1Q tag; in front of an IPv4 datagram and in front of what would be one more tag) run through ALL
    their values; the frames of a chunk pass through one long-lived switch, whose counters are read back at the end.
 F. histories on one switch: the controller's answer to a packet-in (flow-mod, packet-out / flow-mod naming the buffer,
    packet-out carrying the data) delivered RE-ENTRANTLY from inside the connection's send - i.e. inside rx_packet, an action
    list or an OFPP_TABLE resubmission - or afterwards; a fault (exception) at every callout of the switch (DpPacketOut event,
    packet-in send); a cable feeding emitted frames back in from inside the event; then probe traffic through the same switch.
    Steps in which a fault occurred are not asserted, everything after them is.

 G. port numbers: two more ports numbered at every byte / sign boundary up to OFPP_MAX - 1, every output kind from and to them.

Oracle: mc/refs/refpkt.py, a byte-level rewriter/interpreter written from the specification text.  Emissions are
compared per port, byte for byte, in order; packet-ins are decoded with the independent wire decoder; port counters
are read back with a port-stats request and must equal the traffic actually observed.
"""
import itertools, os, struct, traceback
from mc.engine import pmap
from mc.report import Report, digest
from mc.refs import ofwire as W
from mc.refs import refpkt as R

PID = "C12"
IN = 1                      # ingress port of every dataplane frame
EG = 2                      # egress port whose config is varied
NPORTS = 4
TPORT = 4                   # the table flow used for OFPP_TABLE outputs to this port
MISS = 128                  # miss_send_len (every corpus frame is shorter)
CTL_MAX = 40                # max_len of the CONTROLLER output in the alphabet (every corpus frame is longer)
SIX = R.PC_PORT_DOWN | R.PC_NO_RECV | R.PC_NO_RECV_STP | R.PC_NO_FLOOD | R.PC_NO_FWD | R.PC_NO_PACKET_IN
BITNAMES = {R.PC_PORT_DOWN: "port-down", R.PC_NO_RECV: "no-recv", R.PC_NO_RECV_STP: "no-recv-stp",
            R.PC_NO_FLOOD: "no-flood", R.PC_NO_FWD: "no-fwd", R.PC_NO_PACKET_IN: "no-packet-in",
            R.PC_NO_STP: "no-stp"}

MAC_SRC = bytes.fromhex("0200000a0001")
MAC_DST = bytes.fromhex("0200000b0002")
MAC_NEW_S = bytes.fromhex("02aaaaaaaa01")
MAC_NEW_D = bytes.fromhex("02bbbbbbbb02")
IP_S, IP_D = R.ip4("10.1.2.3"), R.ip4("10.4.5.6")


# ---------------------------------------------------------------------------------------------
# corpus
# ---------------------------------------------------------------------------------------------
def corpus ():
  """name -> frame bytes.  All lengths and checksums valid (checked by refpkt.verify), UDP checksums present, ECN bits
  zero, UDP ports outside the ones POX's udp class dissects further."""
  pay = bytes((7 * i + 1) & 0xff for i in range(64))
  TAG = (3, 0, 0x123)
  u = lambda p: R.ipv4(IP_S, IP_D, 17, R.udp(IP_S, IP_D, 0x1111, 0x2222, p), tos=0x28)
  t = lambda p, **k: R.ipv4(IP_S, IP_D, 6, R.tcp(IP_S, IP_D, 0x3333, 0x4444, p, **k), tos=0x10)
  a = R.arp(1, MAC_SRC, IP_S, b"\0" * 6, IP_D)
  o = pay[:30]
  C = []
  C.append(("udp", R.eth(MAC_DST, MAC_SRC, R.ETH_IP, u(pay[:16]))))
  C.append(("tcp", R.eth(MAC_DST, MAC_SRC, R.ETH_IP, t(pay[:12]))))
  C.append(("arp", R.eth(MAC_DST, MAC_SRC, R.ETH_ARP, a)))
  C.append(("other", R.eth(MAC_DST, MAC_SRC, 0x88b5, o)))
  C.append(("udp-tag", R.eth(MAC_DST, MAC_SRC, R.ETH_IP, u(pay[:16]), vlan=TAG)))
  C.append(("tcp-tag", R.eth(MAC_DST, MAC_SRC, R.ETH_IP, t(pay[:12]), vlan=TAG)))
  C.append(("arp-tag", R.eth(MAC_DST, MAC_SRC, R.ETH_ARP, a, vlan=TAG)))
  C.append(("other-tag", R.eth(MAC_DST, MAC_SRC, 0x88b5, o, vlan=TAG)))
  C.append(("icmp", R.eth(MAC_DST, MAC_SRC, R.ETH_IP, R.ipv4(IP_S, IP_D, 1, R.icmp_echo(0x0102, 7, pay[:24])))))
  C.append(("udp-odd", R.eth(MAC_DST, MAC_SRC, R.ETH_IP, u(pay[:5]))))
  # extras (shorter lists)
  syn_opts = bytes.fromhex("020405b4" "0402" "080a0000000100000000" "01" "030307")
  C.append(("tcp-opt-tag", R.eth(MAC_DST, MAC_SRC, R.ETH_IP, t(b"", flags=0x02, options=syn_opts), vlan=(0, 0, 1))))
  C.append(("tcp-odd", R.eth(MAC_DST, MAC_SRC, R.ETH_IP, t(pay[:7]))))
  C.append(("udp-ipopt", R.eth(MAC_DST, MAC_SRC, R.ETH_IP,
                               R.ipv4(IP_S, IP_D, 17, R.udp(IP_S, IP_D, 0x1111, 0x2222, pay[:10]), options=b"\x01\x01\x01\x00"))))
  C.append(("udp-cfi", R.eth(MAC_DST, MAC_SRC, R.ETH_IP, u(pay[:16]), vlan=(3, 1, 0x123))))
  C.append(("arp-pad", R.eth(MAC_DST, MAC_SRC, R.ETH_ARP, a + b"\0" * 18)))
  # a short datagram padded to the 60 byte Ethernet minimum (padding is not part of the IP datagram)
  C.append(("udp-pad", R.eth(MAC_DST, MAC_SRC, R.ETH_IP, u(pay[:6])).ljust(60, b"\0")))
  # fragments of one UDP / TCP datagram (the first carries the L4 header and MF, the later one an offset); used with
  # link-layer actions only, see L2_ONLY
  whole = R.udp(IP_S, IP_D, 0x1111, 0x2222, pay[:40])
  C.append(("udp-frag-first", R.eth(MAC_DST, MAC_SRC, R.ETH_IP, R.ipv4(IP_S, IP_D, 17, whole[:24], flags_frag=0x2000))))
  C.append(("udp-frag-later", R.eth(MAC_DST, MAC_SRC, R.ETH_IP, R.ipv4(IP_S, IP_D, 17, whole[24:], flags_frag=0x0003))))
  whole = R.tcp(IP_S, IP_D, 0x3333, 0x4444, pay[:40])
  C.append(("tcp-frag-first", R.eth(MAC_DST, MAC_SRC, R.ETH_IP, R.ipv4(IP_S, IP_D, 6, whole[:36], flags_frag=0x2000))))
  b = R.bpdu()
  C.append(("bpdu", (R.STP_MAC + MAC_SRC + struct.pack("!H", len(b)) + b).ljust(60, b"\0")))
  # ---- WIDE_FRAMES: frame families that go through the boundary-argument and the fixed long lists in every delivery ----
  # ICMP beyond echo.  Error messages QUOTE the datagram they are about: its IP header and the first bytes of its data
  # (RFC 792: 64 bits; RFC 1812: as much as fits) - a quoted header whose total length says more than is quoted.
  def icmp (typ, code, rest4, body):
    m = bytearray(struct.pack("!BBH", typ, code, 0) + rest4 + body)
    c = R.inet_csum(m); m[2] = c >> 8; m[3] = c & 0xff
    return bytes(m)
  I = lambda m: R.eth(MAC_DST, MAC_SRC, R.ETH_IP, R.ipv4(IP_S, IP_D, 1, m))
  q_udp = R.ipv4(IP_D, IP_S, 17, R.udp(IP_D, IP_S, 0x2222, 0x1111, pay + pay[:28]), ttl=1)      # a 120 byte datagram
  q_tcp = R.ipv4(IP_D, IP_S, 6, R.tcp(IP_D, IP_S, 0x4444, 0x3333, pay[:40]), ttl=1)
  q_short = R.ipv4(IP_D, IP_S, 17, R.udp(IP_D, IP_S, 0x2222, 0x1111, pay[:8]), ttl=1)             # 36 bytes: quoted whole
  for typ, code, nm, rest in ((3, 3, "unreach", b"\0" * 4), (3, 4, "fragneeded", b"\0\0\x05\xdc"), (11, 0, "ttl", b"\0" * 4),
                              (5, 1, "redirect", IP_D), (4, 0, "quench", b"\0" * 4), (12, 0, "paramprob", b"\x08\0\0\0")):
    C.append(("icmp-%s-quote-udp8" % nm, I(icmp(typ, code, rest, q_udp[:28]))))
    if nm in ("unreach", "ttl", "redirect"):
      C.append(("icmp-%s-quote-tcp8" % nm, I(icmp(typ, code, rest, q_tcp[:28]))))
      C.append(("icmp-%s-quote-udp44" % nm, I(icmp(typ, code, rest, q_udp[:64]))))
      C.append(("icmp-%s-whole-udp" % nm, I(icmp(typ, code, rest, q_short))))
  C.append(("icmp-reply", I(R.icmp_echo(0x0102, 7, pay[:24], typ=0))))
  C.append(("icmp-timestamp", I(icmp(13, 0, b"\0\1\0\2", bytes(range(12))))))
  C.append(("icmp-mask-reply", I(icmp(18, 0, b"\0\1\0\2", b"\xff\xff\xff\0"))))
  C.append(("icmp-router-adv", I(icmp(9, 0, b"\x01\x02\x00\x1e", IP_S + b"\0\0\0\1"))))
  C.append(("icmp-type40", I(icmp(40, 0, b"\0\1\0\2", pay[:11]))))
  # other EtherTypes in front of what would be an 802.1Q tag + IPv4/UDP, had the type been 0x8100: OpenFlow 1.0 knows one tag
  # type (0x8100); 802.1ad service tags (0x88a8), the older QinQ types 0x9100/0x9200/0x9300 and everything else are "other"
  # frames (no VLAN to set or strip, no IP header to rewrite).  Section E runs ALL 65536 types; these go through every delivery.
  taglike = lambda et: MAC_DST + MAC_SRC + struct.pack("!HHH", et, 0x6123, R.ETH_IP) + u(pay[:16])
  for et in (0x88a8, 0x9100, 0x9200, 0x8101, 0x86dd, 0x8847):
    C.append(("etype-%04x-taglike" % et, taglike(et)))
  C.append(("udp-tag-tag", R.eth(MAC_DST, MAC_SRC, R.ETH_VLAN, struct.pack("!HH", 0xa456, R.ETH_IP) + u(pay[:16]), vlan=TAG)))
  C.append(("udp-tag-stag", R.eth(MAC_DST, MAC_SRC, 0x88a8, struct.pack("!HH", 0xa456, R.ETH_IP) + u(pay[:16]), vlan=TAG)))
  for n, f in C:
    assert not R.verify(f), (n, R.verify(f))
    assert CTL_MAX < len(f) < MISS, n
  return C

MAIN_FRAMES = ("udp", "tcp", "arp", "other", "udp-tag", "tcp-tag", "arp-tag", "other-tag", "icmp", "udp-odd")
EXTRA_FRAMES = ("tcp-opt-tag", "tcp-odd", "udp-ipopt", "udp-cfi", "arp-pad", "udp-pad", "bpdu",
                "udp-frag-first", "udp-frag-later", "tcp-frag-first")
# fragments: only link-layer rewrites are combined with them (a fragment's L4 checksum cannot be recomputed from the
# fragment, and OpenFlow 1.0 does not say whether transport rewrites apply to first fragments)
L2_ONLY = ("udp-frag-first", "udp-frag-later", "tcp-frag-first")
WIDE_FRAMES = tuple(["icmp-%s-quote-udp8" % n for n in ("unreach", "fragneeded", "ttl", "redirect", "quench", "paramprob")]
                    + ["icmp-%s-%s" % (n, k) for n in ("unreach", "ttl", "redirect") for k in ("quote-tcp8", "quote-udp44", "whole-udp")]
                    + ["icmp-reply", "icmp-timestamp", "icmp-mask-reply", "icmp-router-adv", "icmp-type40"]
                    + ["etype-%04x-taglike" % et for et in (0x88a8, 0x9100, 0x9200, 0x8101, 0x86dd, 0x8847)]
                    + ["udp-tag-tag", "udp-tag-stag"])


def family (fname):
  """Frame families with their own violation keys (so that a listed finding about one of them cannot explain a violation
  on ordinary frames): first fragments, link-layer padding, ICMP errors quoting a truncated datagram, unusual EtherTypes."""
  if "frag-first" in fname: return "first-fragment"
  if fname.endswith("-pad"): return "padded"
  if fname.startswith("icmp-") and "-quote-" in fname: return "icmp-quote"
  if fname.startswith("etype-"): return "other-ethertype"
  return ""
L34_REWRITES = ("set_nw_src", "set_nw_dst", "set_nw_tos", "set_tp_src", "set_tp_dst")


# ---------------------------------------------------------------------------------------------
# action alphabet: label -> reference action tuple; encode() gives the wire form
# ---------------------------------------------------------------------------------------------
ALPHA = [
  ("vid", ("set_vlan_vid", 0xabc)), ("pcp", ("set_vlan_pcp", 5)), ("strip", ("strip_vlan",)),
  ("dl_src", ("set_dl_src", MAC_NEW_S)), ("dl_dst", ("set_dl_dst", MAC_NEW_D)),
  ("nw_src", ("set_nw_src", 0xc000024d)), ("nw_dst", ("set_nw_dst", 0xc6336409)), ("tos", ("set_nw_tos", 0xb8)),
  ("tp_src", ("set_tp_src", 0x1357)), ("tp_dst", ("set_tp_dst", 0x2468)),
  ("enq3", ("enqueue", 3, 1)),
  ("out2", ("output", 2, 0)), ("inport", ("output", R.OFPP_IN_PORT, 0)), ("table", ("output", R.OFPP_TABLE, 0)),
  ("flood", ("output", R.OFPP_FLOOD, 0)), ("all", ("output", R.OFPP_ALL, 0)),
  ("ctl", ("output", R.OFPP_CONTROLLER, CTL_MAX)),
]
# boundary arguments, each used in front of an output (section "arguments")
ARGS = [
  ("vid0", ("set_vlan_vid", 0)), ("vid1", ("set_vlan_vid", 1)), ("vidmax", ("set_vlan_vid", 0xfff)),
  ("pcp0", ("set_vlan_pcp", 0)), ("pcp7", ("set_vlan_pcp", 7)),
  ("dl_src_ff", ("set_dl_src", b"\xff" * 6)), ("dl_dst_00", ("set_dl_dst", b"\0" * 6)),
  ("dl_dst_stp", ("set_dl_dst", R.STP_MAC)),
  ("nw_src0", ("set_nw_src", 0)), ("nw_dst_ff", ("set_nw_dst", 0xffffffff)), ("nw_src_same", ("set_nw_src", 0x0a010203)),
  ("tos0", ("set_nw_tos", 0)), ("tosmax", ("set_nw_tos", 0xfc)),
  ("tp_src0", ("set_tp_src", 0)), ("tp_dst_ff", ("set_tp_dst", 0xffff)), ("tp_dst53", ("set_tp_dst", 53)),
  ("tp_src67", ("set_tp_src", 67)),
  ("out1", ("output", 1, 0)), ("out3", ("output", 3, 0)), ("out4", ("output", 4, 0)),
  ("ctl0", ("output", R.OFPP_CONTROLLER, 0)), ("ctlmax", ("output", R.OFPP_CONTROLLER, 0xffff)),
  ("enq2", ("enqueue", 2, 0)),
]
BUF_MAX = 64                # max_len of the output:CONTROLLER that creates a buffer in the 'buffered' deliveries
# rewrites used by the value sweeps (section E): addresses whose 16-bit words are large in either byte order, so that the
# one's complement sums of the rewritten headers carry
HI_SRC, HI_DST = 0xfefdfcfb, 0xfbfcfdfe
SWEEP_ARGS = [("nw_src_hi", ("set_nw_src", HI_SRC)), ("nw_dst_hi", ("set_nw_dst", HI_DST))]
DYNAMIC = ("set_tp_src", "set_tp_dst", "set_nw_src", "set_nw_dst", "set_nw_tos", "set_vlan_vid", "set_vlan_pcp")


class _Labels (dict):
  """label -> action tuple.  Besides the fixed labels, "<rewrite>=<hex argument>" (e.g. "set_tp_src=0x1234") names the
  rewrite with that argument and "ctl=<hex max_len>" an output to the controller; the value sweeps use these."""
  def __missing__ (self, label):
    name, eq, arg = label.partition("=")
    if eq and name in DYNAMIC:
      return (name, int(arg, 16))
    if eq and name == "ctl":
      return ("output", R.OFPP_CONTROLLER, int(arg, 16))
    if eq and name == "out":
      return ("output", int(arg, 16), 0)
    if eq and name == "enq":
      return ("enqueue", int(arg, 16), 1)
    raise KeyError(label)


LABELS = _Labels(ALPHA + ARGS + SWEEP_ARGS + [("ctl64", ("output", R.OFPP_CONTROLLER, BUF_MAX))])
OUT_LABELS = tuple(l for l, a in ALPHA + ARGS if a[0] in ("output", "enqueue"))


def encode (labels):
  out = b""
  for l in labels:
    a = LABELS[l]
    n = a[0]
    if n == "output": out += W.a_output(a[1], a[2])
    elif n == "enqueue": out += W.a_enqueue(a[1], a[2])
    elif n == "set_vlan_vid": out += W.a_set_vlan_vid(a[1])
    elif n == "set_vlan_pcp": out += W.a_set_vlan_pcp(a[1])
    elif n == "strip_vlan": out += W.a_strip_vlan()
    elif n == "set_dl_src": out += W.a_set_dl_src(a[1])
    elif n == "set_dl_dst": out += W.a_set_dl_dst(a[1])
    elif n == "set_nw_src": out += W.a_set_nw_src(a[1])
    elif n == "set_nw_dst": out += W.a_set_nw_dst(a[1])
    elif n == "set_nw_tos": out += W.a_set_nw_tos(a[1])
    elif n == "set_tp_src": out += W.a_set_tp_src(a[1])
    elif n == "set_tp_dst": out += W.a_set_tp_dst(a[1])
    else: raise ValueError(n)
  return out


# ---------------------------------------------------------------------------------------------
# running the real switch
# ---------------------------------------------------------------------------------------------
class Obs (object):
  """Everything observable from one run."""
  def __init__ (self):
    self.out = []           # (port, bytes) in emission order
    self.pins = []          # decoded packet-ins in order
    self.errors = []        # decoded OFPT_ERROR messages
    self.raised = None      # exception that escaped rx_packet / was caught by the switch's read loop
    self.garbled = False
    self.stats = None       # port_no -> counters dict
    self.stage1_failed = False
    self.calls = 0


class Sw (object):
  """One fresh SwitchStack with the read-loop's exception handler observed from outside."""
  def __init__ (self):
    from mc.env import SwitchStack, VClock
    self.st = SwitchStack(dpid=1, ports=NPORTS, clock=VClock(), miss_send_len=MISS)
    self.obs = Obs()
    self.xid = 0x0c120000
    conn = self.st.conn
    orig = conn._error_handler
    def eh (reason, info, _orig=orig, _self=self):
      if reason == conn.ERR_EXCEPTION and _self.obs.raised is None:
        _self.obs.raised = info[0]
      return _orig(reason, info)
    conn._error_handler = eh

  def nxid (self):
    self.xid += 1; return self.xid

  def feed (self, data):
    self.obs.calls += 1
    try:
      self.st.feed(data)
    except Exception as e:
      if self.obs.raised is None: self.obs.raised = e
    return self.collect()

  def rx (self, frame, port):
    self.obs.calls += 1
    try:
      self.st.rx(frame, port)
    except (Exception, RecursionError) as e:
      if self.obs.raised is None: self.obs.raised = e
    return self.collect()

  def collect (self):
    """Move what the switch wrote since the last call into obs; returns the decoded non-packet-in messages."""
    msgs, rest = W.split(self.st.drain())
    if rest: self.obs.garbled = True
    others = []
    for m in msgs:
      d = W.decode(m)
      if d["type"] == W.PACKET_IN: self.obs.pins.append(d)
      elif d["type"] == W.ERROR: self.obs.errors.append(d)
      else: others.append(d)
    self.obs.out.extend(self.st.take_out())
    return others

  def features (self):
    r = [d for d in self.feed(W.features_request(self.nxid())) if d["type"] == W.FEATURES_REPLY]
    return dict((p["port_no"], p) for p in r[0]["ports"]) if len(r) == 1 else None

  def port_stats (self):
    r = [d for d in self.feed(W.stats_request(self.nxid(), W.OFPST_PORT, W.port_stats_body(W.OFPP_NONE)))
         if d["type"] == W.STATS_REPLY and d.get("stype") == W.OFPST_PORT]
    if len(r) == 1 and r[0].get("wellformed"):
      self.obs.stats = dict((p["port_no"], p) for p in r[0]["ports"])
    return self.obs.stats


def site_of (exc):
  """file basename : function : exception type of the innermost POX frame."""
  last = None
  for fr in traceback.extract_tb(exc.__traceback__):
    if "/pox/" in fr.filename.replace("\\", "/"): last = fr
  if last is None: return "harness:%s" % type(exc).__name__
  return "%s:%s:%s" % (os.path.basename(last.filename), last.name, type(exc).__name__)


# ---------------------------------------------------------------------------------------------
# expectation and comparison
# ---------------------------------------------------------------------------------------------
class Exp (object):
  def __init__ (self, ports):
    self.per_port = dict((p, []) for p in ports)     # port -> [(frame, label of the output action)]
    self.pins = []                                   # [(reason, in_port, frame, max_len, label)]
    self.rx = None                                   # None (not asserted) or {port: set of allowed (packets, bytes)}
    self.resub = {}                                  # port -> (n, bytes) of the OFPP_TABLE resubmissions naming it as in_port


def expect_actions (frame, labels, in_port, ports_cfg, table=True):
  """Reference outcome of applying the action list to `frame`.  OFPP_TABLE consults the one table flow the harness
  installs for packet-outs: (in_port=IN, dl_dst=MAC_DST) -> output:TPORT; anything else is a table miss."""
  acts = [LABELS[l] for l in labels]
  ev, final = R.run_actions(frame, acts, in_port, ports_cfg)
  e = Exp(ports_cfg)
  for x in ev:
    lab = labels[x[-1]]
    if x[0] == "out":
      e.per_port[x[1]].append((x[2], lab))
    elif x[0] == "ctl":
      e.pins.append((W.OFPR_ACTION, in_port, x[1], x[2], lab))
    elif x[0] == "table":
      cur = x[1]
      n, b = e.resub.get(in_port, (0, 0)); e.resub[in_port] = (n + 1, b + len(cur))
      if in_port == IN and cur[:6] == MAC_DST and table:
        if R.can_tx(ports_cfg[TPORT]): e.per_port[TPORT].append((cur, lab))
      else:
        e.pins.append((W.OFPR_NO_MATCH, in_port, cur, MISS, lab))
  return e


def compare (exp, obs):
  """List of difference records (dicts with clause, what, and classification fields)."""
  recs = []
  got = dict((p, []) for p in exp.per_port)
  for p, f in obs.out:
    got.setdefault(p, []).append(f)
  for p in sorted(got):
    want = exp.per_port.get(p, [])
    have = got[p]
    if len(have) != len(want):
      d = "extra" if len(have) > len(want) else "missing"
      labs = sorted(set(l for f, l in want)) if want else []
      recs.append(dict(clause="ports", port=p, dir=d, labels=labs,
                       what="port %d: %d frame(s) emitted, %d expected" % (p, len(have), len(want))))
      continue
    for i, (h, (w, lab)) in enumerate(zip(have, want)):
      if not R.same_modulo_zero_csum(h, w):
        recs.append(dict(clause="bytes", port=p, layers=R.first_diff_layer(w, h), label=lab,
                         what="port %d emission %d (from action %s) differs in %s: expected %s got %s"
                              % (p, i, lab, ",".join(R.diff_fields(w, h)), w.hex(), h.hex())))
        break
  # packet-ins, in order
  if len(obs.pins) != len(exp.pins):
    d = "unexpected" if len(obs.pins) > len(exp.pins) else "missing"
    recs.append(dict(clause="packet-in", sub=d,
                     what="%d packet-in(s) sent (reasons %r), %d expected (reasons %r)"
                          % (len(obs.pins), [p["reason"] for p in obs.pins], len(exp.pins), [p[0] for p in exp.pins])))
  else:
    for i, (p, (reason, inp, f, mx, lab)) in enumerate(zip(obs.pins, exp.pins)):
      sub = None
      if p["reason"] != reason: sub = "reason"
      elif p["in_port"] != inp: sub = "in_port"
      elif p["total_len"] != len(f): sub = "total_len"
      else:
        want = f[:mx] if p["buffer_id"] != W.NO_BUFFER else f
        if p["data"] != want:
          sub = "data" if len(p["data"]) == len(want) else "data-length"
      if sub == "total_len":
        # name the region of the expected frame where the switch's idea of the frame ends / what lies beyond it
        sub = "total_len:%s" % (R.first_diff_layer(f, f[:p["total_len"]]) if p["total_len"] < len(f) else "longer")
      if sub in ("data", "data-length"):
        recs.append(dict(clause="bytes", port=None, index=i, layers=R.first_diff_layer(want, p["data"], f), label=lab,
                         what="packet-in %d (from %s) carries %s, expected %s%s" % (i, lab, p["data"].hex(), want.hex(),
                              " (the first %d bytes of the frame)" % mx if len(want) < len(f) else "")))
        break
      if sub:
        recs.append(dict(clause="packet-in", sub=sub, label=lab, index=i,
                         what="packet-in %d (from %s): %s wrong: reason %d in_port %d total_len %d buffer %#x data %s; "
                              "expected reason %d in_port %d frame %s max_len %d"
                              % (i, lab, sub, p["reason"], p["in_port"], p["total_len"], p["buffer_id"], p["data"].hex(),
                                 reason, inp, f.hex(), mx)))
        break
  return recs


def check_counters (exp, obs):
  recs = []
  if obs.stats is None or sorted(obs.stats) != sorted(exp.per_port):
    return [dict(clause="counters", field="no-reply", what="port-stats request (all ports) not answered with one entry per port")]
  for p in sorted(exp.per_port):
    s = obs.stats[p]
    tx = [f for q, f in obs.out if q == p]
    if s["tx_packets"] != len(tx):
      recs.append(dict(clause="counters", field="tx_packets",
                       what="port %d tx_packets %d, %d frame(s) were emitted" % (p, s["tx_packets"], len(tx))))
    elif s["tx_bytes"] != sum(len(f) for f in tx):
      recs.append(dict(clause="counters", field="tx_bytes",
                       what="port %d tx_bytes %d, emitted frames total %d bytes" % (p, s["tx_bytes"], sum(len(f) for f in tx))))
    if exp.rx is not None:
      allowed = exp.rx.get(p, set([(0, 0)]))
      if (s["rx_packets"], s["rx_bytes"]) not in allowed:
        f = "rx_packets" if s["rx_packets"] not in [a[0] for a in allowed] else "rx_bytes"
        n, b = exp.resub.get(p, (0, 0))
        if n and s["rx_packets"] - n in [a[0] for a in allowed]:
          # exactly what a switch reports that counts every frame a packet-out sends to OFPP_TABLE as RECEIVED on the port
          # the packet-out names as in_port
          f = "rx:table-resubmission-counted"
        recs.append(dict(clause="counters", field=f,
                         what="port %d rx_packets/rx_bytes %d/%d, accepted traffic was %s"
                              % (p, s["rx_packets"], s["rx_bytes"], sorted(allowed))))
  return recs


# ---------------------------------------------------------------------------------------------
# A. action lists
# ---------------------------------------------------------------------------------------------
PORTS0 = dict((p, 0) for p in range(1, NPORTS + 1))
LAST_OBS = [None]           # observation of the most recent action case (for replay output only)
T_FLOW = lambda xid: W.flow_mod(xid, W.match_fields(in_port=IN, dl_dst=MAC_DST), W.OFPFC_ADD, W.a_output(TPORT))


# 'buffered' deliveries: (how the buffer is created, how it is released).  The frame first reaches the controller
# (output:CONTROLLER action of a flow entry / of a packet-out carrying the frame / table miss) and is buffered; the
# action list under test then arrives in a packet-out or flow-mod that names the buffer id.
BUF_MODES = {
  "buf-ctl":     ("flow", "pout"),      # flow [output:CONTROLLER] hit by the frame; packet-out(buffer_id, list)
  "buf-miss":    ("miss", "pout"),      # table miss; packet-out(buffer_id, list)
  "buf-ctl-fm":  ("flow", "fmod"),      # flow [output:CONTROLLER]; flow-mod(buffer_id, list)
  "buf-miss-fm": ("miss", "fmod"),
  "buf-po":      ("pout", "pout"),      # packet-out carrying the frame with [output:CONTROLLER]; packet-out(buffer_id, list)
  "buf-rwctl":   ("rwflow", "pout"),    # flow [set_vlan_vid, output:CONTROLLER, set_dl_dst]: the buffer holds the frame
}                                       # as it was at the output:CONTROLLER
RW_CREATE = ("vid", "ctl64", "dl_dst")


BEFORE_RELEASE = "[before the buffer was released] "     # marks violations of the first packet-in of a buffered delivery


def buffered_expectation (frame, mode, labels):
  """Reference outcome of a buffered delivery: the first packet-in, then the action list applied - with the ORIGINAL
  ingress port - to the frame as it was when it was buffered."""
  create, release = BUF_MODES[mode]
  bframe = frame
  if create == "miss":
    pin = (W.OFPR_NO_MATCH, IN, frame, MISS, "table-miss")
  elif create == "rwflow":
    bframe = R.rewrite(frame, LABELS["vid"])
    pin = (W.OFPR_ACTION, IN, bframe, BUF_MAX, "ctl64")
  else:
    pin = (W.OFPR_ACTION, IN, frame, BUF_MAX, "ctl64")
  exp = expect_actions(bframe, labels, IN, PORTS0)
  exp.pins.insert(0, pin)
  exp.rx = {} if create == "pout" else {IN: set([(1, len(frame))])}
  return exp, bframe


def deliver_buffered (sw, frame, mode, labels):
  """Returns None or a (key suffix, what) describing why the action list could not be delivered."""
  create, release = BUF_MODES[mode]
  obs = sw.obs
  if create in ("flow", "rwflow"):
    sw.feed(W.flow_mod(sw.nxid(), W.match_fields(in_port=IN), W.OFPFC_ADD, encode(("ctl64",) if create == "flow" else RW_CREATE)))
  if create == "pout":
    sw.feed(W.packet_out(sw.nxid(), encode(("ctl64",)), frame, in_port=IN))
  elif not (obs.errors or obs.raised):
    sw.rx(frame, IN)
  if obs.raised is not None: return None
  if len(obs.pins) != 1 or obs.pins[0]["buffer_id"] == W.NO_BUFFER or obs.errors:
    return ("buffered:no-buffer", "the frame did not reach the controller as exactly one buffered packet-in (%d packet-ins, buffer ids %r, errors %r)"
            % (len(obs.pins), [p["buffer_id"] for p in obs.pins], [(e["etype"], e["code"]) for e in obs.errors]))
  bid = obs.pins[0]["buffer_id"]
  if release == "pout":
    sw.feed(W.packet_out(sw.nxid(), encode(labels), b"", buffer_id=bid, in_port=IN))
  else:
    sw.feed(W.flow_mod(sw.nxid(), W.match_fields(in_port=TPORT, dl_type=0x9999), W.OFPFC_ADD, encode(labels), buffer_id=bid))
  return None


def run_actions_case (frames, fname, mode, labels):
  """Execute one case on a fresh switch.  Returns (violations [(key, what)], observation summary, #calls)."""
  frame = frames[fname]
  sw = Sw()
  obs = sw.obs
  wire = encode(labels)
  in_port = R.OFPP_NONE if mode == "pout-none" else IN
  pre = []
  if mode in BUF_MODES:
    r = deliver_buffered(sw, frame, mode, labels)
    if r: pre.append(r)
    exp, bframe = buffered_expectation(frame, mode, labels)
  elif mode == "flow":
    sw.feed(W.flow_mod(sw.nxid(), W.match_fields(in_port=IN), W.OFPFC_ADD, wire))
    if obs.errors or obs.raised:
      pre.append(("flow-mod-refused", "flow-mod carrying [%s] was refused / failed: %r %r"
                  % (",".join(labels), [(e["etype"], e["code"]) for e in obs.errors], obs.raised)))
    else:
      sw.rx(frame, IN)
  else:
    sw.feed(T_FLOW(sw.nxid()))
    sw.feed(W.packet_out(sw.nxid(), wire, frame, in_port=in_port))
  if mode not in BUF_MODES:
    exp = expect_actions(frame, labels, in_port, PORTS0)
    if mode == "flow": exp.rx = {IN: set([(1, len(frame))])}
    else: exp.rx = {}         # a packet-out is not a reception, whatever its actions (OFPP_TABLE included)
  bad = []
  if pre:
    bad = [("%s:%s" % (PID, pre[0][0]), "frame %s, [%s] as %s: %s" % (fname, ",".join(labels), mode, pre[0][1]))]
  elif obs.raised is not None:
    bad = [("%s:raises:%s" % (PID, site_of(obs.raised)),
            "%s: %s while applying [%s] (%s) to frame %s"
            % (type(obs.raised).__name__, obs.raised, ",".join(labels), mode, fname))]
  else:
    raised_before = obs.raised
    recs = compare(exp, obs)
    # buffered deliveries: did the frame already reach the controller wrongly, before the buffer was released?
    obs.stage1_failed = mode in BUF_MODES and any(r.get("index") == 0 for r in recs)
    if obs.garbled: recs.append(dict(clause="wire", what="switch wrote bytes that do not frame as OpenFlow messages"))
    if obs.errors:
      recs.append(dict(clause="error-reply", code="%d.%d" % (obs.errors[0]["etype"], obs.errors[0]["code"]),
                       what="switch answered with OFPT_ERROR type %d code %d" % (obs.errors[0]["etype"], obs.errors[0]["code"])))
    sw.port_stats()
    if obs.raised is not None and raised_before is None:
      recs.append(dict(clause="counters", field="raises:" + site_of(obs.raised), what="port-stats request raised %r" % (obs.raised,)))
    else:
      recs += check_counters(exp, obs)
    rew = [LABELS[l][0] for l in labels if LABELS[l][0] in R.REWRITES]
    for r in recs:
      c = r["clause"]
      if c == "bytes":
        k = "bytes:%s:%s" % (">".join(rew) or "forward", r["layers"])
      elif c == "ports":
        outs = [l for l in labels if l in OUT_LABELS]
        role = "ingress-port" if r["port"] == IN else "port"
        k = "ports:%s:%s:%s" % (",".join(sorted(set(outs))) or "no-output", r["dir"], role)
      elif c == "packet-in":
        k = "packet-in:%s" % r["sub"]
      elif c == "counters":
        k = "counters:%s" % r["field"]
      elif c == "error-reply":
        k = "error-reply:%s" % r["code"]
      else:
        k = c
      # special frame families get their own keys, so that a listed finding about them (first fragments, padded
      # frames) cannot explain a violation on ordinary frames
      fam = family(fname)
      if fam and not (c == "counters" and r["field"].startswith("rx:")): k += ":" + fam
      stage = BEFORE_RELEASE if (mode in BUF_MODES and r.get("index") == 0) else ""
      bad.append(("%s:%s" % (PID, k), "frame %s, [%s] as %s: %s%s" % (fname, ",".join(labels), mode, stage, r["what"])))
  summary = (tuple((p, digest(f)) for p, f in obs.out),
             tuple((p["reason"], p["in_port"], p["total_len"], digest(p["data"])) for p in obs.pins))
  LAST_OBS[0] = obs
  return bad, summary, obs.calls


def minimise (frames, fname, mode, labels, cache):
  """Greedy one-at-a-time removal keeping 'some violation' (1-minimal action list)."""
  def failing (ls):
    k = (fname, mode, ls)
    if k not in cache:
      cache[k] = run_actions_case(frames, fname, mode, ls)[0]
    return cache[k]
  cur = tuple(labels)
  changed = True
  while changed and len(cur) > 1:
    changed = False
    for i in range(len(cur)):
      cand = cur[:i] + cur[i+1:]
      if mode in BUF_MODES and not any(l in OUT_LABELS for l in cand): continue    # outside the enumerated space
      if failing(cand):
        cur = cand; changed = True; break
  return cur, failing(cur)


def buffered_key (key):
  """C12:ports:<outputs>:<dir>:<role>... -> C12:buffered:ports:<dir>:<role>...; other clauses: C12:buffered:<rest>."""
  parts = key.split(":")
  if parts[-1] in ("padded", "first-fragment", "other-ethertype"): parts = parts[:-1]
  if len(parts) > 2 and parts[1] == "ports": parts = parts[:2] + parts[3:]
  if parts[1] == "raises": return key
  return ":".join([parts[0], "buffered"] + parts[1:])


def action_lists (first, maxlen, mode):
  """All lists of length <= maxlen starting with alphabet entry `first` (None: the empty list)."""
  labs = [l for l, a in ALPHA if not (l == "table" and mode != "pout")]
  if first is None:
    yield (); return
  if first not in labs: return
  for n in range(0, maxlen):
    for rest in itertools.product(labs, repeat=n):
      yield (first,) + rest


def fixed_long_lists (mode):
  rw = [l for l, a in ALPHA if a[0] in R.REWRITES]
  outs = ["out2", "flood", "all", "inport", "ctl"] + (["table"] if mode == "pout" else [])
  L = []
  for k in range(len(rw)):
    r = lambda j: rw[(k + j) % len(rw)]
    L.append((r(0), "out2", r(3), outs[k % len(outs)], r(6), "all"))
    L.append((r(0), r(1), r(2), r(3), outs[k % len(outs)]))
    L.append((r(0), r(5), "flood", r(7), r(2), outs[(k + 2) % len(outs)]))
  return L


def argument_lists (mode):
  L = []
  for l, a in ARGS:
    if a[0] in ("output", "enqueue"):
      L.append((l,)); L.append(("dl_dst", l)); L.append((l, "out2"))
    else:
      L.append((l, "out2")); L.append((l, "ctl")); L.append(("out2", l, "flood"))
      if mode == "pout": L.append((l, "table"))
  return L


def _work_actions (item):
  from mc.env import boot
  boot()
  kind, fname, mode, arg, maxlen = item
  frames = dict(corpus())
  rep = Report(PID, "model_checking")
  cache = {}
  if kind == "lists": lists = action_lists(arg, maxlen, mode)
  elif kind == "long": lists = fixed_long_lists(mode)
  else: lists = argument_lists(mode)
  for labels in lists:
    if fname in L2_ONLY and any(LABELS[l][0] in L34_REWRITES for l in labels): continue
    if mode in BUF_MODES and not any(l in OUT_LABELS for l in labels): continue     # releasing a buffer into nothing
    bad, summary, calls = run_actions_case(frames, fname, mode, labels)
    rep.evaluations += 1
    rep.transitions += calls
    rep.outcome((fname, mode, summary, tuple(sorted(k for k, w in bad))))
    if bad:
      if not any(":raises:" in k for k, w in bad) and len(labels) > 1:
        mlabels, mbad = minimise(frames, fname, mode, labels, cache)
        if mbad: labels, bad = mlabels, mbad
      if mode in BUF_MODES:
        # a violation of the release step that the same list does not show when the packet-out carries the frame itself
        # is specific to the buffer path: it gets its own key (without the output kind and frame family, which only
        # say how it became visible)
        ck = (fname, "pout", tuple(labels))
        if ck not in cache: cache[ck] = run_actions_case(frames, fname, "pout", tuple(labels))[0]
        plain = set(k for k, w in cache[ck])
        bad = [(k if (k in plain or BEFORE_RELEASE in w) else buffered_key(k), w) for k, w in bad]
      for k, what in bad:
        rep.violation(k, what, dict(kind="actions", frame=fname, mode=mode, actions=list(labels)))
    elif rep.evaluations % 1500 == 7:
      rep.sample(dict(frame=fname, delivered_as=mode, actions=list(labels),
                      emitted=[(p, d) for p, d in summary[0]], packet_ins=len(summary[1])))
  rep.state_count = rep.evaluations
  return rep


# ---------------------------------------------------------------------------------------------
# B. port rules
# ---------------------------------------------------------------------------------------------
PORT_KINDS = ("out2", "inport", "flood", "all", "ctl", "miss")


def flags (cfg):
  return ",".join(BITNAMES[b] for b in sorted(BITNAMES) if cfg & b) or "none"

def names (cfg):
  return [BITNAMES[b] for b in sorted(BITNAMES) if cfg & b]

def from_names (ns):
  rev = dict((v, k) for k, v in BITNAMES.items())
  return sum(rev[n] for n in ns)


# destination addresses of the frames sent through every port configuration: the 802.1D bridge group address is the
# ONLY address that OFPPC_NO_RECV lets through and that OFPPC_NO_RECV_STP refuses; its neighbours in the reserved block
# 01:80:c2:00:00:01..0f (pause, LLDP, ...), the first address past the block, broadcast and unicast are ordinary traffic
PORT_DSTS = (
  ("unicast", None), ("broadcast", b"\xff" * 6), ("stp-group", R.STP_MAC),
  ("reserved-group-01", bytes.fromhex("0180c2000001")), ("reserved-group-0e", bytes.fromhex("0180c200000e")),
  ("reserved-group-0f", bytes.fromhex("0180c200000f")), ("group-10", bytes.fromhex("0180c2000010")),
)

def port_frames (frames):
  """(name, destination class, frame): the IPv4/UDP frame under every destination of PORT_DSTS, and the LLC BPDU."""
  out = []
  for cls, dst in PORT_DSTS:
    f = frames["udp"] if dst is None else dst + frames["udp"][6:]
    out.append(("udp>" + cls, cls, f))
    if cls == "unicast": out.append(("bpdu", "stp-group", frames["bpdu"]))
  return out

def dst_class (cls):
  return "reserved-group" if cls.startswith("reserved-group") else cls


def run_port_case (frames, icfg, ecfg, kind, mode):
  """Ports IN and EG configured through port-mod; then frames to every destination class, one after the other."""
  sw = Sw(); obs = sw.obs
  bad = []
  def v (k, what): bad.append(("%s:%s" % (PID, k), "ingress %s, egress %s, %s as %s: %s" % (flags(icfg), flags(ecfg), kind, mode, what)))
  ports = sw.features()
  if ports is None or sorted(ports) != list(range(1, NPORTS + 1)):
    return [("%s:port-mod:no-features" % PID, "features request not answered")], None, obs.calls
  for p, cfg in ((IN, icfg), (EG, ecfg)):
    sw.feed(W.port_mod(sw.nxid(), p, ports[p]["hw_addr"], cfg, SIX))
  if obs.errors or obs.raised:
    v("port-mod:refused", "port-mod refused: %r %r" % ([(e["etype"], e["code"]) for e in obs.errors], obs.raised))
    return bad, None, obs.calls
  ports = sw.features()
  cfgs = dict(PORTS0); cfgs[IN] = icfg; cfgs[EG] = ecfg
  for p in sorted(cfgs):
    have = ports[p]["config"] & SIX if ports else None
    if have != cfgs[p]:
      v("port-mod:config:%s" % BITNAMES[lowest_bit((have or 0) ^ cfgs[p])],
        "port %d config reads back %s after port-mod to %s" % (p, flags(have or 0), flags(cfgs[p])))
  if bad: return bad, None, obs.calls
  labels = () if kind == "miss" else (kind,)
  if mode == "flow" and kind != "miss":
    sw.feed(W.flow_mod(sw.nxid(), W.match_fields(in_port=IN), W.OFPFC_ADD, encode(labels)))
  rx_alts = [(0, 0)]
  summary = []
  for fname, cls, frame in port_frames(frames):
    o0, p0 = len(obs.out), len(obs.pins)
    if mode == "flow": sw.rx(frame, IN)
    else: sw.feed(W.packet_out(sw.nxid(), encode(labels), frame, in_port=IN))
    if obs.raised is not None:
      v("raises:%s" % site_of(obs.raised), "%s: %s" % (type(obs.raised).__name__, obs.raised))
      return bad, None, obs.calls
    step = Obs(); step.out = obs.out[o0:]; step.pins = obs.pins[p0:]
    summary.append((tuple((p, digest(f)) for p, f in step.out), tuple((p["reason"], p["in_port"]) for p in step.pins)))
    # acceptable outcomes
    nothing = Exp(cfgs)
    if kind == "miss":
      full = Exp(cfgs)
      if not icfg & R.PC_NO_PACKET_IN: full.pins.append((W.OFPR_NO_MATCH, IN, frame, MISS, "miss"))
      variants = [full]
    else:
      full = expect_actions(frame, labels, IN, cfgs, table=False)
      variants = [full]
      if full.pins and icfg & R.PC_NO_PACKET_IN:
        # whether NO_PACKET_IN also silences output:CONTROLLER is not specified
        alt = expect_actions(frame, labels, IN, cfgs, table=False); alt.pins = []
        variants.append(alt)
    accepted = True
    if mode == "flow":
      accepted = R.accepts(icfg, frame)
      if not accepted: variants = [nothing]
      elif icfg & R.PC_PORT_DOWN: variants.append(nothing)     # frames arriving on a downed port: unspecified
    results = [compare(x, step) for x in variants]
    which = next((i for i, r in enumerate(results) if not r), None)
    if mode == "flow":
      # counters: an accepted frame counts; one refused by NO_RECV* (or arriving on a downed port) may or may not
      must_count = accepted and not icfg & R.PC_PORT_DOWN
      nxt = set((n + 1, b + len(frame)) for n, b in rx_alts)
      if not must_count: nxt |= set(rx_alts)
      rx_alts = sorted(nxt)
    is_stp = frame[:6] == R.STP_MAC
    stp = "%s (dst %s)" % ("stp" if is_stp else "ordinary", frame[:6].hex())
    if which is None and not accepted:
      v("portrule:accepted-from-receive-disabled-port:%s:%s-dst" % ("no-recv-stp" if is_stp else "no-recv", dst_class(cls)),
        "%s frame %s was processed although the ingress port refuses it: emitted on %r, %d packet-in(s)"
        % (stp, fname, [p for p, f in step.out], len(step.pins)))
      break
    if which is None and accepted and mode == "flow" and not step.out and not step.pins and not icfg & R.PC_PORT_DOWN:
      v("portrule:accepted-frame-dropped:%s-dst" % dst_class(cls),
        "%s frame %s must be accepted by the ingress port but nothing happened (expected emissions on %r, %d packet-in(s))"
        % (stp, fname, sorted(p for p, l in variants[0].per_port.items() if l), len(variants[0].pins)))
      break
    if which is None:
      for r in results[0]:
        if r["clause"] == "ports":
          pc = cfgs[r["port"]]
          if r["dir"] == "extra":
            if not accepted: why = "not-accepted"
            elif r["port"] == IN and kind != "inport": why = "ingress-port"
            elif pc & R.PC_PORT_DOWN: why = "port-down"
            elif pc & R.PC_NO_FWD: why = "no-fwd"
            elif kind == "flood" and pc & R.PC_NO_FLOOD: why = "no-flood"
            else: why = "unexplained"
          else:
            why = {IN: "ingress-port", EG: "egress-port"}.get(r["port"], "other-port")
          v("portrule:%s:%s:%s" % (r["dir"], kind, why), "%s frame: %s (port %d config %s)" % (stp, r["what"], r["port"], flags(pc)))
        elif r["clause"] == "bytes":
          v("portrule:bytes:%s" % r["layers"], "%s frame: %s" % (stp, r["what"]))
        else:
          why = r["sub"]
          if r["sub"] == "unexpected":
            why = "unexpected:" + ("not-accepted" if not accepted else "no-packet-in" if icfg & R.PC_NO_PACKET_IN else "unexplained")
          v("portrule:packet-in:%s:%s" % (kind, why), "%s frame: %s" % (stp, r["what"]))
      break
  if not bad:
    if obs.errors: v("error-reply:%d.%d" % (obs.errors[0]["etype"], obs.errors[0]["code"]), "switch answered with OFPT_ERROR")
    sw.port_stats()
    e = Exp(cfgs)
    e.rx = {IN: set(rx_alts)} if mode == "flow" else {}
    for r in check_counters(e, obs):
      v("counters:%s" % r["field"], r["what"])
  return bad, tuple(summary), obs.calls


def lowest_bit (x):
  return x & -x if x else 0


def six_configs ():
  bits = [b for b in sorted(BITNAMES) if b & SIX]
  out = []
  for n in range(64):
    out.append(sum(b for i, b in enumerate(bits) if n >> i & 1))
  return out


def small_configs ():
  bits = [b for b in sorted(BITNAMES) if b & SIX]
  return [0] + bits + [SIX]


def _work_ports (item):
  from mc.env import boot
  boot()
  icfg, ecfgs = item
  frames = dict(corpus())
  rep = Report(PID, "model_checking")
  for ecfg in ecfgs:
    for kind in PORT_KINDS:
      for mode in ("flow", "pout"):
        if kind == "miss" and mode == "pout": continue
        bad, summary, calls = run_port_case(frames, icfg, ecfg, kind, mode)
        rep.evaluations += 1
        rep.transitions += calls
        rep.outcome(("ports", kind, mode, summary, tuple(sorted(k for k, w in bad))))
        for k, what in bad:
          rep.violation(k, what, dict(kind="ports", ingress=names(icfg), egress=names(ecfg), out=kind, mode=mode))
        if not bad and rep.evaluations % 700 == 3:
          rep.sample(dict(ingress_config=flags(icfg), egress_config=flags(ecfg), output=kind, delivered_as=mode,
                          frames=[n for n, c, f in port_frames(frames)], emitted_ports_per_frame=[[p for p, d in s[0]] for s in summary]))
  rep.state_count = rep.evaluations
  return rep


# ---------------------------------------------------------------------------------------------
# C. port-mod transitions
# ---------------------------------------------------------------------------------------------
def run_portmod_case (a, b, full):
  sw = Sw(); obs = sw.obs
  bad = []
  def v (k, what): bad.append(("%s:%s" % (PID, k), "config %s -> %s (%s mask): %s" % (flags(a), flags(b), "full" if full else "changed-bits", what)))
  ports = sw.features()
  if ports is None: return [("%s:port-mod:no-features" % PID, "features request not answered")], None, obs.calls
  hw = ports[EG]["hw_addr"]
  sw.feed(W.port_mod(sw.nxid(), EG, hw, a, SIX))
  mask = SIX if full else (a ^ b)
  # bits outside the mask carry the complement of the current value: they must be ignored
  cfg = b if full else ((b & mask) | (~a & SIX & ~mask))
  sw.feed(W.port_mod(sw.nxid(), EG, hw, cfg, mask))
  # a port-mod naming the wrong hardware address must change nothing
  sw.feed(W.port_mod(sw.nxid(), EG, b"\x02\xee\xee\xee\xee\xee", ~b & SIX, SIX))
  nerr = len(obs.errors)
  if obs.raised is not None:
    v("raises:%s" % site_of(obs.raised), "%r" % (obs.raised,)); return bad, None, obs.calls
  if nerr != 1 or (obs.errors[0]["etype"], obs.errors[0]["code"]) != (W.OFPET_PORT_MOD_FAILED, W.OFPPMFC_BAD_HW_ADDR):
    v("port-mod:errors", "expected exactly one error (bad hw addr), got %r" % [(e["etype"], e["code"]) for e in obs.errors])
  after = sw.features()
  if after is None: v("port-mod:no-features", "features request not answered"); return bad, None, obs.calls
  for p in sorted(after):
    want = b if p == EG else 0
    have = after[p]["config"] & SIX
    if have != want:
      if p == EG: v("port-mod:config:%s" % BITNAMES[lowest_bit(have ^ want)], "port %d config reads back %s" % (p, flags(have)))
      else: v("port-mod:other-port-changed", "port %d config reads back %s" % (p, flags(have)))
    if after[p]["hw_addr"] != ports[p]["hw_addr"] or after[p]["name"] != ports[p]["name"]:
      v("port-mod:identity-changed", "port %d hw_addr/name changed" % p)
  return bad, (after[EG]["config"], after[EG]["state"], len(obs.errors)), obs.calls


def _work_portmod (item):
  from mc.env import boot
  boot()
  a, bs = item
  rep = Report(PID, "model_checking")
  for b in bs:
    for full in (False, True):
      bad, summary, calls = run_portmod_case(a, b, full)
      rep.evaluations += 1; rep.transitions += calls
      rep.outcome(("pm", summary, tuple(sorted(k for k, w in bad))))
      for k, what in bad:
        rep.violation(k, what, dict(kind="portmod", a=names(a), b=names(b), full=full))
  rep.state_count = rep.evaluations
  return rep


# ---------------------------------------------------------------------------------------------
# D. port life-cycle histories before the delivery probes
# ---------------------------------------------------------------------------------------------
LC_BITS = (("down", R.PC_PORT_DOWN), ("nofwd", R.PC_NO_FWD), ("noflood", R.PC_NO_FLOOD))
LC_OPS = tuple("%s%s" % (sign, n) for n, b in LC_BITS for sign in ("+", "-")) + ("del", "add")
LC_KINDS = ("out2", "enq2", "flood", "all", "inport", "from2")      # from2: flow entry (in_port 2 -> output:3) hit by a frame from the wire
# the wider operation alphabet of the histories WITH TRAFFIC IN BETWEEN: port-mods of one bit (now also NO_RECV), port-mods
# that set all four bits at once to every one of the 16 values ("=<hex>"), delete_port, add_port - and "probe": the whole
# set of delivery probes, asserted against the configuration the port has at that point of the history
LC_MASK4 = R.PC_PORT_DOWN | R.PC_NO_FWD | R.PC_NO_FLOOD | R.PC_NO_RECV
LC_WIDE_OPS = (LC_OPS[:-2] + ("+norecv", "-norecv")
               + tuple("=%x" % (d * R.PC_PORT_DOWN | r * R.PC_NO_RECV | f * R.PC_NO_FLOOD | w * R.PC_NO_FWD)
                       for d in (0, 1) for r in (0, 1) for f in (0, 1) for w in (0, 1)) + ("del", "add"))


def traffic_histories (nops):
  """Every sequence of <= nops operations of LC_WIDE_OPS (delete/add only where the port is there / is not) with the probe
  set inserted, or not, in front of each operation - except the histories without any probe in between, when they are
  lifecycle_histories (the probe set always follows the last operation)."""
  base = [((), True)]
  out = []
  for d in range(nops):
    nxt = []
    for h, present in base:
      for op in LC_WIDE_OPS:
        if op == "del" and not present: continue
        if op == "add" and present: continue
        nxt.append((h + (op,), (op == "add") or (present and op != "del")))
    base = nxt
    for h, present in nxt:
      for mask in range(1 << len(h)):
        if mask == 0 and all(op in LC_OPS for op in h): continue
        hh = ()
        for i, op in enumerate(h):
          if mask >> i & 1: hh += ("probe",)
          hh += (op,)
        out.append(hh)
  return out


def lifecycle_histories (depth):
  """Every sequence of <= depth operations on port EG: port-mod setting / clearing PORT_DOWN, NO_FWD, NO_FLOOD (also while
  the port is absent: must be refused), delete_port, add_port of the very ofp_phy_port delete_port returned."""
  out = [()]
  frontier = [((), True)]
  for d in range(depth):
    nxt = []
    for h, present in frontier:
      for op in LC_OPS:
        if op == "del" and not present: continue
        if op == "add" and present: continue
        p2 = (op == "add") or (present and op != "del")
        nxt.append((h + (op,), p2))
    out += [h for h, p in nxt]
    frontier = nxt
  return out


def run_lifecycle_case (frames, history):
  """Reference: the port description (config bits) is carried by the ofp_phy_port object through delete_port/add_port;
  a port emits iff it is present, not the excluded ingress port, and its config allows it."""
  sw = Sw(); obs = sw.obs
  bad = []
  hist = ",".join(history) or "(none)"
  def v (k, what): bad.append(("%s:lifecycle:%s" % (PID, k), "port %d after [%s]: %s" % (EG, hist, what)))
  ports = sw.features()
  if ports is None: return [("%s:port-mod:no-features" % PID, "features request not answered")], None, obs.calls
  hw = ports[EG]["hw_addr"]
  cfg = 0; present = True; removed = None; readded = False
  bits = dict(LC_BITS + (("norecv", R.PC_NO_RECV),))
  frame = frames["udp"]
  summary = []
  traffic = False           # a probe set has run
  since_add = [0]           # number of emissions before the port was last added
  stale = ""                # ":after-traffic" once a configuration change FOLLOWED traffic

  def probe_set ():
    """Every delivery probe against the configuration the port has now.  Returns False when something differed."""
    shape = ("readded-port" if readded and present else ("removed-port" if not present else "port")) + stale
    cfgs = dict((p, 0) for p in PORTS0 if p != EG)
    if present: cfgs[EG] = cfg
    n0 = len(bad)
    p0, e0 = len(obs.pins), len(obs.errors)
    for mode in ("pout", "flow"):
      for kind in LC_KINDS:
        if kind == "from2" and mode == "pout": continue
        inp = EG if kind in ("inport", "from2") else IN
        label = "out3" if kind == "from2" else kind
        o0 = len(obs.out)
        if mode == "pout":
          sw.feed(W.packet_out(sw.nxid(), encode((label,)), frame, in_port=inp))
        else:
          sw.feed(W.flow_mod(sw.nxid(), W.match_fields(in_port=inp), W.OFPFC_ADD, encode((label,))))
          sw.rx(frame, inp)
        if obs.raised is not None:
          v("raises:%s" % site_of(obs.raised), "%s: %s (probe %s as %s)" % (type(obs.raised).__name__, obs.raised, kind, mode))
          return False
        got = {}
        for p, f in obs.out[o0:]: got.setdefault(p, []).append(f)
        want = R.out_ports(LABELS[label][1], inp, cfgs)
        either = False
        if mode == "flow" and inp == EG:
          # the frame comes from the wire on the port under test: it must be there and willing to receive
          if not present or not R.accepts(cfg, frame): want = []
          elif cfg & R.PC_PORT_DOWN: either = True          # frames arriving on a downed port: unspecified
        summary.append(tuple(sorted((p, len(fs)) for p, fs in got.items())))
        if either and not got: continue
        for p in sorted(set(got) | set(want)):
          n = len(got.get(p, [])); w = 1 if p in want else 0
          if n > w:
            c = cfgs.get(p)
            why = ("absent" if c is None else "ingress-port" if (p == inp and kind != "inport") else "port-down" if c & R.PC_PORT_DOWN
                   else "no-fwd" if c & R.PC_NO_FWD else "no-flood" if (kind == "flood" and c & R.PC_NO_FLOOD)
                   else "no-recv" if (mode == "flow" and inp == EG and present and cfg & R.PC_NO_RECV)
                   else "absent-ingress" if (mode == "flow" and inp == EG and not present) else "unexplained")
            v("emitted-on:%s:%s" % (why, shape), "probe %s as %s (in_port %d): %d frame(s) emitted on port %d (config %s), %d expected"
              % (kind, mode, inp, n, p, "absent" if c is None else flags(c), w))
          elif n < w:
            v("missing:%s:%s" % (kind, shape), "probe %s as %s (in_port %d): nothing emitted on port %d (config %s)" % (kind, mode, inp, p, flags(cfgs[p])))
          elif n and got[p][0] != frame:
            v("bytes:%s" % R.first_diff_layer(frame, got[p][0]), "probe %s as %s: frame on port %d altered" % (kind, mode, p))
        if len(bad) != n0: return False
    if len(obs.pins) != p0: v("packet-in", "%d unexpected packet-in(s) from the probes" % (len(obs.pins) - p0))
    if len(obs.errors) != e0: v("error-reply:%d.%d" % (obs.errors[e0]["etype"], obs.errors[e0]["code"]), "a probe was answered with OFPT_ERROR")
    return len(bad) == n0

  for op in history:
    nerr = len(obs.errors)
    if op == "probe":
      if not probe_set(): return bad, None, obs.calls
      traffic = True
      continue
    if traffic: stale = ":after-traffic"
    if op == "del" or op == "add":
      obs.calls += 1
      try:
        if op == "del": removed = sw.st.sw.delete_port(EG); present = False
        else: sw.st.sw.add_port(removed); present = True; readded = True
      except Exception as e:
        obs.raised = e
      sw.collect()
      if op == "add": since_add[0] = len(obs.out)
    else:
      if op[0] == "=": mask = LC_MASK4; val = int(op[1:], 16)
      else: mask = bits[op[1:]]; val = mask if op[0] == "+" else 0
      sw.feed(W.port_mod(sw.nxid(), EG, hw, val, mask))
      if present:
        cfg = (cfg & ~mask) | val
        if len(obs.errors) != nerr:
          v("port-mod-refused", "port-mod %s on the existing port answered with error %r" % (op, (obs.errors[-1]["etype"], obs.errors[-1]["code"])))
      elif len(obs.errors) != nerr + 1 or (obs.errors[-1]["etype"], obs.errors[-1]["code"]) != (W.OFPET_PORT_MOD_FAILED, W.OFPPMFC_BAD_PORT):
        v("port-mod-absent-port", "port-mod %s naming the removed port was not refused with PORT_MOD_FAILED/BAD_PORT" % op)
    if obs.raised is not None:
      v("raises:%s" % site_of(obs.raised), "%s: %s during %s" % (type(obs.raised).__name__, obs.raised, op))
      return bad, None, obs.calls
  if bad: return bad, None, obs.calls
  shape = ("readded-port" if readded and present else ("removed-port" if not present else "port")) + stale
  # what the switch itself reports
  after = sw.features()
  if after is None: v("no-features", "features request not answered"); return bad, None, obs.calls
  if (EG in after) != present:
    v("features:%s" % ("still-listed" if not present else "not-listed"), "features reply %s the port" % ("lists" if EG in after else "does not list"))
  elif present and after[EG]["config"] & SIX != cfg:
    v("features:config:%s:%s" % (BITNAMES[lowest_bit((after[EG]["config"] & SIX) ^ cfg)], shape),
      "features reply reports config %s, the port-mods (and the port object re-added) give %s" % (flags(after[EG]["config"] & SIX), flags(cfg)))
  cfgs = dict((p, 0) for p in PORTS0 if p != EG)
  if present: cfgs[EG] = cfg
  if probe_set():
    sw.port_stats()
    if obs.stats is None: v("counters:no-reply", "port-stats request not answered")
    else:
      # counters of the ports that exist (whether a removed port keeps a statistics entry is not specified)
      for p in sorted(cfgs):
        s = obs.stats.get(p)
        tx = [f for q, f in obs.out if q == p]
        tx2 = [f for q, f in obs.out[since_add[0]:] if q == p]    # whether counters restart when a port is added again is not specified
        if s is None: v("counters:no-entry", "no statistics entry for existing port %d" % p)
        elif (s["tx_packets"], s["tx_bytes"]) not in ((len(tx), sum(len(f) for f in tx)), (len(tx2), sum(len(f) for f in tx2))):
          v("counters:tx:%s" % shape, "port %d tx_packets/tx_bytes %d/%d, %d frame(s) / %d bytes were emitted since the history"
            % (p, s["tx_packets"], s["tx_bytes"], len(tx), sum(len(f) for f in tx)))
  return bad, (present, cfg, tuple(summary)), obs.calls


def _work_lifecycle (item):
  from mc.env import boot
  boot()
  frames = dict(corpus())
  rep = Report(PID, "model_checking")
  for h in item[0]:
    bad, summary, calls = run_lifecycle_case(frames, h)
    rep.evaluations += 1; rep.transitions += calls
    rep.outcome(("lc", summary, tuple(sorted(k for k, w in bad))))
    for k, what in bad:
      rep.violation(k, what, dict(kind="lifecycle", history=list(h)))
    if not bad and rep.evaluations % 150 == 5:
      rep.sample(dict(port_history=list(h), port_present=summary[0], config=flags(summary[1]),
                      probes=["%s/%s" % (k, m) for m in ("pout", "flow") for k in LC_KINDS if (k, m) != ("from2", "pout")], emitted_ports_per_probe=[list(x) for x in summary[2]]))
  rep.state_count = rep.evaluations
  return rep


# ---------------------------------------------------------------------------------------------
# E. value sweeps on a long-lived switch
# ---------------------------------------------------------------------------------------------
# Lengths and checksums are arithmetic on the frame's DATA: whether a one's complement sum carries once, twice or not at
# all, whether a length needs its high byte, whether a segment has a trailing odd byte depends on the values, not on the
# shape of the frame, and a handful of corpus frames visits a handful of points of that space.  Each sweep below takes one
# frame shape and lets one 16-bit quantity run through ALL of its 65536 values (every word of a checksummed region is
# equivalent for the sum, so one swept word per region makes the region's sum visit every residue, with the carries the
# rest of the region provides; the other bytes are large in either byte order so that carries occur), or lets a length /
# a rewrite argument run through its whole range.  The frames of one chunk go through ONE switch one after the other
# (a fresh switch per value would cost more than the forwarding itself); every emission is compared byte for byte with the
# reference, the port counters of the whole chunk are read back at its end, and a failing value is re-run on a fresh
# switch through the single-case runner of section A, which also names the violation.
PAY = bytes((7 * i + 1) & 0xff for i in range(64))
IP_DH = R.ip4("251.252.253.254")      # destination address of the sweep frames: its words are large in either byte order
SWEEP_CHUNK = 4096
LEN_CHUNK = 128
TCP_MAXPAY, UDP_MAXPAY = 1460, 1472   # what fits a 1500 byte IP datagram


def _two (v):
  return bytes(((v >> 8) & 0xff, v & 0xff))

def _fill (n, fill=None):
  if fill is not None: return bytes((fill,)) * n
  return bytes((7 * i + 1) & 0xff for i in range(n))

def _tci (v):
  return (v >> 13, (v >> 12) & 1, v & 0xfff)


def sweep_l4 (proto, v, n, pos, ident=0x3039, tos=0x28, ttl=64, tci=None, fill=None, src=IP_S, dst=IP_DH, tcp_options=b"",
              opt_pos=None):
  """IPv4 frame carrying UDP / TCP / ICMP echo with an n byte payload whose bytes pos, pos+1 are the 16 bit value v (or, with
  opt_pos, whose TCP option bytes opt_pos, opt_pos+1 are)."""
  pay = _fill(n, fill)
  if opt_pos is None:
    pay = pay[:pos] + _two(v) + pay[pos + 2:]
    assert len(pay) == n
  else:
    tcp_options = tcp_options[:opt_pos] + _two(v) + tcp_options[opt_pos + 2:]
  if proto == 17: seg = R.udp(src, dst, 0x1111, 0x2222, pay)
  elif proto == 6: seg = R.tcp(src, dst, 0x3333, 0x4444, pay, options=tcp_options)
  else: seg = R.icmp_echo(0x0102, 7, pay)
  return R.eth(MAC_DST, MAC_SRC, R.ETH_IP, R.ipv4(src, dst, proto, seg, tos=tos, ident=ident, ttl=ttl), vlan=tci)


def _len_frame (proto, n):
  pay = _fill(n)
  if proto == 17: seg = R.udp(IP_S, IP_DH, 0x1111, 0x2222, pay)
  elif proto == 6: seg = R.tcp(IP_S, IP_DH, 0x3333, 0x4444, pay)
  else: seg = R.icmp_echo(0x0102, 7, pay)
  return R.eth(MAC_DST, MAC_SRC, R.ETH_IP, R.ipv4(IP_S, IP_DH, proto, seg, tos=0x28))


S3 = ("out2", "nw_src_hi", "out3", "tp_dst", "out4")
TS_OPT = bytes.fromhex("0101" "080a" "00000000" "00000000")     # NOP NOP timestamp; the swept word is the low half of TSval


# every rewrite on the frame as received (under a type that is neither 0x8100 nor 0x0800 each is a no-op), then the two that
# push a tag; for the tagged frames the tag rewrites, then strip and the network / transport rewrites on the stripped frame
ET_LIST = ("strip", "out2", "nw_src_hi", "nw_dst_hi", "tos", "out3", "tp_src", "tp_dst", "out4", "vid", "pcp", "inport")
ET_LIST_TAGGED = ("nw_src_hi", "tos", "out2", "tp_dst", "out3", "vid", "pcp", "out4", "strip", "nw_dst_hi", "tp_src", "inport")
_ET_BODY = {}

def _et_frame (l2, proto):
  if proto not in _ET_BODY:
    seg = R.udp(IP_S, IP_D, 0x1111, 0x2222, PAY[:16]) if proto == 17 else R.tcp(IP_S, IP_D, 0x3333, 0x4444, PAY[:12])
    _ET_BODY[proto] = R.ipv4(IP_S, IP_D, proto, seg, tos=0x28)
  return MAC_DST + MAC_SRC + l2 + _ET_BODY[proto]


def _h (x): return "%#x" % x
def _rot (v): return ((v << 5) | (v >> 11)) & 0xffff

# name -> (tier, delivery, number of values, v -> frame, v -> action labels, what is swept)
SWEEPS = [
  # -- one 16-bit word of every checksummed region, all 65536 values ---------------------------------------------------------
  ("udp-even", "q", "flow", 65536, lambda v: sweep_l4(17, v, 16, 14, ident=v, tci=_tci(v)), lambda v: ("out2", "nw_src_hi", "out3"),
   "tagged IPv4/UDP, 16 byte payload: 802.1Q TCI = IP id = last payload word = v"),
  ("udp-odd", "q", "flow", 65536, lambda v: sweep_l4(17, v, 5, 3, ident=v), lambda v: ("out2", "tp_src", "out3"),
   "IPv4/UDP, 5 byte payload: IP id = v, last payload bytes (the second is the trailing odd byte) = v"),
  ("tcp-even", "q", "flow", 65536, lambda v: sweep_l4(6, v, 12, 10, tos=v >> 8, ttl=v & 0xff), lambda v: ("out2", "tp_dst", "out3"),
   "IPv4/TCP, 12 byte payload: (IP tos, ttl) = last payload word = v"),
  ("tcp-odd", "q", "flow", 65536, lambda v: sweep_l4(6, v, 7, 5, ident=v), lambda v: ("out2", "nw_dst", "out3"),
   "IPv4/TCP, 7 byte payload: IP id = v, last payload bytes (the second is the trailing odd byte) = v"),
  ("icmp-odd", "q", "flow", 65536, lambda v: sweep_l4(1, v, 23, 21, ident=v), lambda v: ("out2", "nw_src_hi", "out3"),
   "IPv4/ICMP echo, 23 byte payload: IP id = v, last payload bytes (the second is the trailing odd byte) = v"),
  # -- every payload length ------------------------------------------------------------------------------------------------------
  ("len-udp", "q", "flow", UDP_MAXPAY + 1, lambda n: _len_frame(17, n), lambda n: S3, "IPv4/UDP with every payload length 0..%d" % UDP_MAXPAY),
  ("len-tcp", "q", "flow", TCP_MAXPAY + 1, lambda n: _len_frame(6, n), lambda n: S3, "IPv4/TCP with every payload length 0..%d" % TCP_MAXPAY),
  ("len-icmp", "q", "flow", UDP_MAXPAY + 1, lambda n: _len_frame(1, n), lambda n: ("out2", "nw_src_hi", "out3", "tos", "out4"),
   "IPv4/ICMP echo with every payload length 0..%d" % UDP_MAXPAY),
  ("len-udp-ctl", "q", "flow", UDP_MAXPAY + 1, lambda n: _len_frame(17, n), lambda n: ("ctl", "tp_dst", "out2"),
   "IPv4/UDP with every payload length 0..%d, also sent to the controller (max_len %d)" % (UDP_MAXPAY, CTL_MAX)),
  ("len-tcp-miss", "q", "buf-miss", TCP_MAXPAY + 1, lambda n: _len_frame(6, n), lambda n: ("out2",),
   "IPv4/TCP with every payload length 0..%d as a table miss (miss_send_len %d), then released from its buffer by a packet-out" % (TCP_MAXPAY, MISS)),
  # -- every value of a rewrite argument (packet-out carrying the frame, in_port 1) ---------------------------------------------
  ("args-udp", "q", "pout", 65536, lambda v: FR["udp"],
   lambda v: ("set_tp_src=" + _h(v), "out2", "set_nw_src=" + _h(v << 16 | _rot(v)), "out3"),
   "frame udp through [set_tp_src v, output:2, set_nw_src (upper half v, lower half v rotated left by 5: each half takes every value), output:3]"),
  ("args-tcp", "q", "pout", 65536, lambda v: FR["tcp"],
   lambda v: ("set_tp_dst=" + _h(v), "out2", "set_nw_dst=" + _h(_rot(v) << 16 | v), "out3"),
   "frame tcp through [set_tp_dst v, output:2, set_nw_dst (upper half v rotated left by 5, lower half v), output:3]"),
  ("args-vlan", "q", "pout", 4096, lambda v: FR["udp"],
   lambda v: ("set_vlan_vid=" + _h(v), "out2", "set_vlan_pcp=" + _h(v & 7), "out3", "set_vlan_vid=" + _h(v ^ 0xfff), "out4"),
   "untagged frame udp through [set_vlan_vid v, output:2, set_vlan_pcp v&7, output:3, set_vlan_vid ~v, output:4], all 4096 ids"),
  ("args-vlan-tag", "q", "pout", 4096, lambda v: FR["tcp-tag"],
   lambda v: ("set_vlan_pcp=" + _h(v & 7), "out2", "set_vlan_vid=" + _h(v), "out3", "strip", "set_vlan_pcp=" + _h((v >> 3) & 7), "out4"),
   "tagged frame tcp-tag through [set_vlan_pcp v&7, output:2, set_vlan_vid v, output:3, strip_vlan, set_vlan_pcp, output:4], all 4096 ids"),
  ("args-tos", "q", "pout", 256, lambda v: FR[("udp", "tcp-tag", "icmp", "udp-ipopt")[v >> 6]],
   lambda v: ("set_nw_tos=" + _h((v & 63) << 2), "out2", "nw_src_hi", "out3"),
   "frames udp, tcp-tag, icmp, udp-ipopt through [set_nw_tos d, output:2, set_nw_src, output:3], all 64 DSCP values"),
  ("args-ctl", "q", "pout", 512, lambda v: FR[("tcp-tag", "udp-odd")[v >> 8]], lambda v: ("tp_dst", "ctl=" + _h(v & 255), "out2"),
   "frames tcp-tag (70 bytes), udp-odd (47 bytes) through [set_tp_dst, output:CONTROLLER max_len m, output:2], every m in 0..255"),
  # -- every EtherType: OpenFlow 1.0 knows ONE tag type (0x8100) and rewrites network / transport fields of IPv4 (0x0800) only;
  #    under every other type the bytes that follow are opaque, whatever they look like ---------------------------------------
  ("etype-outer-taglike", "q", "flow", 65536, lambda v: _et_frame(struct.pack("!HHH", v, 0x6123, R.ETH_IP), 17), lambda v: ET_LIST,
   "EtherType v followed by what would be an 802.1Q TCI, type 0x0800 and an IPv4/UDP datagram if v were 0x8100"),
  ("etype-outer-ip", "q", "flow", 65536, lambda v: _et_frame(_two(v), 6), lambda v: ET_LIST,
   "EtherType v followed by an IPv4/TCP datagram"),
  ("etype-inner-ip", "q", "flow", 65536, lambda v: _et_frame(struct.pack("!HHH", R.ETH_VLAN, 0x6123, v), 17), lambda v: ET_LIST_TAGGED,
   "802.1Q tagged frame whose encapsulated EtherType is v, followed by an IPv4/UDP datagram"),
  ("etype-inner-taglike", "q", "flow", 65536, lambda v: _et_frame(struct.pack("!HHHHH", R.ETH_VLAN, 0x6123, v, 0xa456, R.ETH_IP), 17),
   lambda v: ET_LIST_TAGGED, "802.1Q tagged frame whose encapsulated EtherType is v, followed by a second TCI, type 0x0800 and an IPv4/UDP datagram"),
  # -- thorough tier: other positions of the swept word, other carry counts, options, tagged argument sweeps -----------------------
  ("udp-even-3", "t", "flow", 65536, lambda v: sweep_l4(17, v, 16, 14, ident=v, tci=_tci(v)), lambda v: S3,
   "as udp-even, through three stages"),
  ("tcp-even-3", "t", "flow", 65536, lambda v: sweep_l4(6, v, 12, 10, tos=v >> 8, ttl=v & 0xff), lambda v: S3,
   "as tcp-even, through three stages"),
  ("icmp-even", "t", "flow", 65536, lambda v: sweep_l4(1, v, 24, 22, ident=v), lambda v: ("out2", "nw_dst_hi", "out3"),
   "IPv4/ICMP echo, 24 byte payload: IP id = last payload word = v"),
  ("udp-first-word", "t", "flow", 65536, lambda v: sweep_l4(17, v, 16, 0, tos=v >> 8 & 0xfc, ttl=v & 0xff), lambda v: ("out2", "nw_dst", "out3", "tos", "out4"),
   "IPv4/UDP, 16 byte payload: (DSCP, ttl) = first payload word = v"),
  ("udp-ff", "t", "flow", 65536, lambda v: sweep_l4(17, v, 64, 30, ident=v, fill=0xff, src=R.ip4("255.255.255.254")), lambda v: S3,
   "IPv4/UDP from 255.255.255.254, 64 payload bytes 0xff (many carries): IP id = payload word 15 = v"),
  ("udp-zero", "t", "flow", 65536, lambda v: sweep_l4(17, v, 64, 62, ident=v, fill=0, dst=IP_D), lambda v: ("out2", "tp_dst", "out3"),
   "IPv4/UDP between 10.x addresses, 64 payload bytes 0x00 (few carries): IP id = last payload word = v"),
  ("udp-odd-long", "t", "flow", 65536, lambda v: sweep_l4(17, v, 63, 61, ident=v, fill=0xff), lambda v: ("out2", "nw_src_hi", "out3"),
   "IPv4/UDP, 63 payload bytes 0xff: IP id = v, last payload bytes = v"),
  ("tcp-first-word", "t", "flow", 65536, lambda v: sweep_l4(6, v, 12, 0, ident=v, tci=(5, 0, 0x234)), lambda v: ("out2", "nw_dst", "out3", "tp_src", "out4"),
   "tagged IPv4/TCP, 12 byte payload: IP id = first payload word = v"),
  ("tcp-ts-option", "t", "flow", 65536, lambda v: sweep_l4(6, v, 7, 0, ident=v, tcp_options=TS_OPT, opt_pos=6), lambda v: S3,
   "IPv4/TCP with a timestamp option, 7 byte payload: IP id = low half of TSval = v"),
  ("tcp-ff", "t", "flow", 65536, lambda v: sweep_l4(6, v, 64, 0, ident=v, fill=0xff, src=R.ip4("255.255.255.254")), lambda v: S3,
   "IPv4/TCP from 255.255.255.254, 64 payload bytes 0xff: IP id = first payload word = v"),
  ("icmp-ff", "t", "flow", 65536, lambda v: sweep_l4(1, v, 64, 32, ident=v, fill=0xff), lambda v: ("out2", "tos", "out3"),
   "IPv4/ICMP echo, 64 payload bytes 0xff: IP id = payload word 16 = v"),
  ("args-udp-tag", "t", "pout", 65536, lambda v: FR["udp-tag"],
   lambda v: ("set_nw_dst=" + _h(0xc6330000 | v), "out2", "set_tp_dst=" + _h(v), "out3", "set_nw_src=" + _h(v << 16 | 0x024d), "out4"),
   "frame udp-tag through [set_nw_dst 198.51.v, output:2, set_tp_dst v, output:3, set_nw_src v.2.77, output:4]"),
  ("args-tcp-odd", "t", "pout", 65536, lambda v: FR["tcp-odd"],
   lambda v: ("set_nw_src=" + _h(0xc0000000 | v), "out2", "set_tp_src=" + _h(v), "out3", "set_nw_dst=" + _h(v << 16 | 0x6409), "out4"),
   "frame tcp-odd through [set_nw_src 192.0.v, output:2, set_tp_src v, output:3, set_nw_dst v.100.9, output:4]"),
  ("args-icmp", "t", "pout", 65536, lambda v: FR["icmp"],
   lambda v: ("set_nw_src=" + _h(0xc0000000 | v), "out2", "set_nw_dst=" + _h(v << 16 | 0x6409), "out3"),
   "frame icmp through [set_nw_src 192.0.v, output:2, set_nw_dst v.100.9, output:3]"),
]
SWEEP = dict((x[0], x) for x in SWEEPS)
FR = {}                     # corpus frames by name (filled by the workers)


def sweep_items (quick):
  items = []
  for name, tier, mode, n, fr, lab, what in SWEEPS:
    if quick and tier != "q": continue
    step = LEN_CHUNK if name.startswith("len-") else SWEEP_CHUNK
    for lo in range(0, n, step):
      items.append(("sweep", name, lo, min(n, lo + step)))
  return items


def _sweep_case_name (name, v):
  return "%s[%#x]" % (name, v)


def diagnose (name, v, frame, labels, mode):
  """A value that failed on the long-lived switch, on a fresh one.  Returns (violations, replay data) - the simplest of:
  one of the frames the list should have emitted, merely forwarded; a 1-minimal sub-list; the case as it is - or None if
  a fresh switch handles the case correctly."""
  fname = _sweep_case_name(name, v)
  m = mode
  bad = run_actions_case({fname: frame}, fname, m, labels)[0]
  if not bad: return None
  data = dict(kind="actions", frame=fname, frame_hex=frame.hex(), mode=m, actions=list(labels))
  if any(":raises:" in k for k, w in bad): return bad, data
  # is it the rewritten frame that cannot be re-serialised (then forwarding it alone fails as well)?
  if any(BEFORE_RELEASE in w for k, w in bad): return bad, data       # the table-miss packet-in of a buffered delivery
  ev, final = R.run_actions(frame, [LABELS[l] for l in labels], IN, PORTS0)
  seen = []
  for e in ev:
    if e[0] == "out" and e[2] not in seen: seen.append(e[2])
  for i, w in enumerate(seen):
    n2 = fname if w == frame else "%s>emission%d" % (fname, i)
    b2 = run_actions_case({n2: w}, n2, "flow", ("out2",))[0]
    if b2: return b2, dict(kind="actions", frame=n2, frame_hex=w.hex(), mode="flow", actions=["out2"])
  mlabels, mbad = minimise({fname: frame}, fname, m, labels, {})
  if mbad: return mbad, dict(data, actions=list(mlabels))
  return bad, data


def run_sweep_chunk (name, lo, hi, rep=None, stop_at_first=False):
  """Values lo..hi-1 of sweep `name` through one switch.  Returns [(key, what, replay data)]."""
  _, tier, mode, n, mkframe, mklabels, what = SWEEP[name]
  out = []
  sigkeys = {}              # raw failure signature -> (keys, number of diagnoses made)
  sw = None
  seg_lo = lo
  def segment_end (sw, upto):
    """Port counters of everything the current switch has handled."""
    if sw is None or upto == seg_lo: return
    obs = sw.obs
    e = Exp(PORTS0)
    e.rx = {IN: set([(upto - seg_lo, seg_rx[0])])} if mode != "pout" else {}
    sw.port_stats()
    if obs.raised is not None:
      out.append(("%s:counters:raises:%s" % (PID, site_of(obs.raised)), "sweep %s values %#x..%#x through one switch: port-stats request raised %r"
                  % (name, seg_lo, upto - 1, obs.raised), dict(kind="sweep", sweep=name, lo=seg_lo, hi=upto)))
      return
    for r in check_counters(e, obs):
      out.append(("%s:counters:%s" % (PID, r["field"]), "sweep %s values %#x..%#x through one switch: %s" % (name, seg_lo, upto - 1, r["what"]),
                  dict(kind="sweep", sweep=name, lo=seg_lo, hi=upto)))
  seg_rx = [0]
  for v in range(lo, hi):
    frame = mkframe(v)
    labels = mklabels(v)
    if sw is None:
      sw = Sw(); seg_lo = v; seg_rx[0] = 0
      if mode == "flow":
        sw.feed(W.flow_mod(sw.nxid(), W.match_fields(in_port=IN), W.OFPFC_ADD, encode(labels)))
    obs = sw.obs
    o0, p0 = len(obs.out), len(obs.pins)
    if mode == "buf-miss":
      # table miss -> buffered packet-in -> packet-out naming the buffer id and carrying the action list
      exp = buffered_expectation(frame, mode, labels)[0]
      sw.rx(frame, IN)
      if obs.raised is None and len(obs.pins) == p0 + 1 and obs.pins[p0]["buffer_id"] != W.NO_BUFFER:
        sw.feed(W.packet_out(sw.nxid(), encode(labels), b"", buffer_id=obs.pins[p0]["buffer_id"], in_port=IN))
    else:
      exp = expect_actions(frame, labels, IN, PORTS0)
      if mode == "flow": sw.rx(frame, IN)
      else: sw.feed(W.packet_out(sw.nxid(), encode(labels), frame, in_port=IN))
    seg_rx[0] += len(frame)
    if rep is not None:
      rep.evaluations += 1
    got = {}
    for p, f in obs.out[o0:]: got.setdefault(p, []).append(f)
    want = dict((p, [f for f, l in fl]) for p, fl in exp.per_port.items() if fl)
    if rep is not None and (v & 15) == 0:
      rep.outcome((name, tuple((p, digest(f)) for p, f in obs.out[o0:]),
                   tuple((q["reason"], q["total_len"], digest(q["data"])) for q in obs.pins[p0:])))
    step = None
    if got == want and obs.raised is None and not obs.errors and not obs.garbled:
      if not exp.pins and len(obs.pins) == p0: continue
      step = Obs(); step.out = obs.out[o0:]; step.pins = obs.pins[p0:]
      if not compare(exp, step): continue
    # ---- something is wrong with this value
    if obs.raised is not None:
      sig = ("raises", site_of(obs.raised))
    else:
      if step is None:
        step = Obs(); step.out = obs.out[o0:]; step.pins = obs.pins[p0:]
      sig = tuple((r["clause"], r.get("port"), r.get("layers"), r.get("dir"), r.get("sub")) for r in compare(exp, step))
      sig += (bool(obs.errors), obs.garbled)
    known = sigkeys.get(sig)
    where = "sweep %s (%s), value %#x" % (name, what, v)
    if known is None or known[1] < 3:
      d = diagnose(name, v, frame, labels, mode)
      if d is None:
        if sig[0] == "raises": short = "raises:" + sig[1]
        elif isinstance(sig[0], tuple): short = ":".join(str(x) for x in (sig[0][0],) + sig[0][2:] if x is not None)
        else: short = "error-reply" if obs.errors else "wire"
        keys = [("%s:long-lived-switch:%s" % (PID, short),
                 "handled correctly by a fresh switch, but not as value number %d through one switch" % (v - seg_lo + 1))]
        data = dict(kind="sweep", sweep=name, lo=seg_lo, hi=v + 1)
      else:
        keys, data = d
      sigkeys[sig] = (keys, (known[1] if known else 0) + 1, data)
    else:
      keys, data = known[0], known[2]       # same failure signature as three diagnosed values of this chunk: counted under their keys
    for k, w in keys:
      out.append((k, "%s: %s" % (where, w), data))
    if stop_at_first: return out
    sw = None                # continue with a fresh switch (the counters of this one are not read)
  segment_end(sw, hi)
  return out


def _work_sweep (item):
  from mc.env import boot
  boot()
  name, lo, hi = item
  FR.update(dict(corpus()))
  rep = Report(PID, "model_checking")
  for k, what, data in run_sweep_chunk(name, lo, hi, rep):
    rep.violation(k, what, data)
  rep.transitions += rep.evaluations + 2
  if lo == 0:
    _, tier, mode, n, mkframe, mklabels, what = SWEEP[name]
    rep.sample(dict(sweep=name, swept=what, values=n, delivered_as=mode, actions=list(mklabels(1)), frame_for_value_1=mkframe(1).hex()))
  rep.state_count = rep.evaluations
  return rep


# ---------------------------------------------------------------------------------------------
# F. histories on ONE switch: nested (re-entrant) processing, faults at the switch's callouts, later traffic
# ---------------------------------------------------------------------------------------------
# Sections A-E hand the switch one message / one frame at a time and look at what it did afterwards.  A switch that
# lives in the controller's process is also entered RE-ENTRANTLY: the controller's answer to a packet-in (flow-mod,
# packet-out naming the buffer) arrives from inside the connection's send(), i.e. while rx_packet / an action list / an
# OFPP_TABLE resubmission is still on the stack; and the two places where the switch calls out to its environment (the
# DpPacketOut event per emitted frame, the connection's send per message) can raise, which ends the processing of the
# current message at that point.  Here a history of STEPS runs through one switch.  A step is
#     (delivery, ingress port, outer action list | None, reaction | None, fault)
#   delivery   "rx" (frame from the wire) or "po" (packet-out carrying the frame and the outer list)
#   reaction   (install, how, list): what the controller does INSIDE the send of the step's first packet-in(s):
#              optionally flow-mod ADD (in_port = packet-in's in_port -> output:4), then the list applied to the
#              packet-in's frame by packet-out naming the buffer ("po-buf"), flow-mod naming the buffer ("fm-buf") or
#              packet-out carrying the packet-in's data with the packet-in's in_port ("po-data")
#   fault      0, or k: the k-th callout of the step (emissions and packet-ins counted together, in order) raises after
#              the frame / message has been handed over
# followed by a fixed tail of probe steps (plain and nested ones, other frames).  The table is fixed at the start:
#   in_port 1 -> [output:4]     in_port 2 -> [set_vlan_pcp 9, output:3] (cannot be serialised: raises by itself)
#   in_port 3 -> no entry (miss)     in_port 4 -> [output:2, output:CONTROLLER, output:3]
# The reference (RefSw below) is an interpreter of the same steps over refpkt: a message / a frame from the wire is a
# unit; a fault ends the unit it occurs in (the inner one, when it occurs inside a reaction) and nothing else.  Steps in
# which a fault occurred are NOT asserted (the statement does not say what a half-processed message emits); every other
# step - in particular every step AFTER a faulted one - must emit exactly what the reference does, and the tx counters
# read back at the end must equal the frames handed to the DpPacketOut listener.
H_ENTRIES = ((1, ("out4",)), (2, ("set_vlan_pcp=0x9", "out3")), (4, ("out2", "ctl64", "out3")))
H_BAD = ("set_vlan_pcp", 9)
H_OUTER = (("table",), ("out2", "table"), ("table", "out2"), ("vid", "table"), ("table", "vid", "out2"), ("table", "table"),
           ("flood", "table", "inport"), ("ctl64",), ("out2", "ctl64", "out3"), ("ctl64", "dl_src", "out3"))
H_RL = (("table",), ("out2",), ("out2", "table"), ("table", "out2"), ("ctl64",), ("flood",), ("dl_dst", "table"))
H_HOW = ("po-buf", "fm-buf", "po-data", "po-buf-later")
H_STEP_FRAME = "udp"
H_TAIL = (
  ("po", 1, ("table",), None, 0, "tcp-tag"),
  ("po", 3, ("out2", "table"), (0, "po-buf", ("table", "out2")), 0, "arp"),
  ("rx", 1, None, None, 0, "icmp"),
  ("po", 4, ("table",), (0, "po-data", ("out2", "table")), 0, "udp-odd"),
  ("rx", 3, None, (1, "po-buf", ("table",)), 0, "tcp"),
  ("po", 3, ("table", "out2"), None, 0, "arp-tag"),
)


class _Fault (Exception):
  pass


class RefSw (object):
  """Reference interpreter of section F (does not call pox).  The frame an action list works on is a one-element list
  (a cell).  shared=False is the specification: a buffer holds its own copy of the frame the packet-in reported.
  shared=True describes ONE particular deviation, used only to NAME a mismatch: the buffer of a table miss is the very
  packet the resubmitting action list goes on working with (rewrites on either side show up on the other)."""
  def __init__ (self, frames, shared=False, cable=None):
    self.table = dict(H_ENTRIES)
    self.frames = frames
    self.shared = shared
    self.cable = cable or {}
    self.badarg = False       # an action list that cannot be serialised was carried out (tx counters not asserted then)
    self.any_fault = False    # some step was cut short by a fault (rx counters not asserted then)
    self.rxc = {}             # port -> [frames, bytes] received from the wire (deliveries "rx" and the cable)
    self.resubc = {}          # port -> [frames, bytes] sent to OFPP_TABLE with that in_port (NOT receptions)

  def step (self, st, react_n):
    dl, port, outer, reaction, fault = st[:5]
    frame = self.frames[st[5] if len(st) > 5 else H_STEP_FRAME]
    self.ev = []
    self.callouts = 0
    self.fault = fault
    self.faulted = False
    self.reaction = reaction
    self.reacts_left = react_n if reaction else 0
    self.reacted = 0
    self.later = []
    if dl == "rx":
      self.count(self.rxc, port, frame)
      self.unit(self.receive, [frame], port, "rx")
    else: self.unit(self.process, [frame], outer, port, None)
    for cell, in_port in self.later:          # answers sent after the message had been processed
      self.unit(self.process, cell, reaction[2], in_port, None)
    return frame

  def unit (self, fn, *a):
    try: fn(*a)
    except _Fault: self.faulted = self.any_fault = True

  def count (self, c, port, f):
    x = c.setdefault(port, [0, 0]); x[0] += 1; x[1] += len(f)

  def callout (self):
    self.callouts += 1
    if self.callouts == self.fault: raise _Fault()

  def emit (self, p, f, lab):
    self.ev.append(("out", p, f, lab))
    self.callout()
    if p in self.cable:                                             # the frame comes back in on another port at once
      self.count(self.rxc, self.cable[p], f)
      self.receive([f], self.cable[p], "rx")

  def pin (self, reason, in_port, cell, mx, lab):
    f = cell[0]
    self.ev.append(("pin", reason, in_port, f, mx, lab))
    self.callout()
    if self.reacts_left:
      self.reacts_left -= 1
      self.reacted += 1
      install, how, rl = self.reaction
      buffered = cell if (self.shared and reason == W.OFPR_NO_MATCH and how != "po-data") else [f]
      if install: self.unit(self.table.__setitem__, in_port, ("out4",))
      if how == "po-buf-later": self.later.append((buffered, in_port))
      else: self.unit(self.process, buffered, rl, in_port, None)

  def process (self, cell, labels, in_port, via):
    bad = False
    for l in labels:
      a = LABELS[l]
      lab = via or l
      if a[0] not in ("output", "enqueue"):
        if a == H_BAD: bad = True
        cell[0] = R.rewrite(cell[0], a)
        continue
      if bad:
        self.badarg = True
        raise _Fault()
      if a[1] == R.OFPP_CONTROLLER: self.pin(W.OFPR_ACTION, in_port, cell, a[2], lab)
      elif a[1] == R.OFPP_TABLE:
        self.count(self.resubc, in_port, cell[0])
        self.receive(cell, in_port, lab)
      else:
        for p in R.out_ports(a[1], in_port, PORTS0): self.emit(p, cell[0], lab)

  def receive (self, cell, in_port, lab):
    entry = self.table.get(in_port)
    if entry is not None: self.process(cell, entry, in_port, "table" if lab != "rx" else "rx")
    else: self.pin(W.OFPR_NO_MATCH, in_port, cell, MISS, lab if lab != "rx" else "table-miss")


class HSw (Sw):
  """Sw with the two callouts of the switch instrumented: a DpPacketOut listener registered AFTER the recording one,
  and the io worker's send.  Both count callouts, raise at the armed one, and the send answers packet-ins from inside."""
  def __init__ (self, cable=None):
    Sw.__init__(self)
    self.cable = cable or {}
    self.count = 0
    self.fault = 0
    self.reaction = None
    self.reacts_left = 0
    self.injected = 0
    self.later = []
    st = self.st
    st.sw.addListener(st.swmod.DpPacketOut, self._on_emit)
    self._send = st.worker.send
    st.worker.send = self._on_send

  def arm (self, reaction, fault, react_n):
    self.count = 0; self.fault = fault; self.reaction = reaction
    self.reacts_left = react_n if reaction else 0
    self.later = []

  def send_later (self):
    """The answers the controller sends only after the switch has finished with the message that caused the packet-in."""
    later, self.later = self.later, []
    for bid, in_port in later:
      self.feed(W.packet_out(self.nxid(), encode(self.reaction[2]), b"", buffer_id=bid, in_port=in_port))

  def _callout (self):
    self.count += 1
    if self.count == self.fault:
      self.injected += 1
      raise RuntimeError("fault injected at callout %d" % self.count)

  def _on_emit (self, e):
    self._callout()
    back = self.cable.get(e.port.port_no)
    if back is not None:
      self.obs.calls += 1
      self.st.rx(e.packet.pack(), back)

  def _on_send (self, data):
    self._send(data)
    if len(data) < 8 or data[1] != W.PACKET_IN: return
    self._callout()
    if not self.reacts_left: return
    self.reacts_left -= 1
    p = W.decode(data)
    install, how, rl = self.reaction
    if install:
      self.st.feed(W.flow_mod(self.nxid(), W.match_fields(in_port=p["in_port"]), W.OFPFC_ADD, encode(("out4",))))
    self.obs.calls += 1
    if how == "po-buf-later":
      self.later.append((p["buffer_id"], p["in_port"]))
    elif how == "po-data" and len(p["data"]) == p["total_len"]:
      self.st.feed(W.packet_out(self.nxid(), encode(rl), p["data"], in_port=p["in_port"]))
    elif how == "fm-buf":
      self.st.feed(W.flow_mod(self.nxid(), W.match_fields(in_port=TPORT, dl_type=0x9999), W.OFPFC_ADD, encode(rl), buffer_id=p["buffer_id"]))
    else:
      self.st.feed(W.packet_out(self.nxid(), encode(rl), b"", buffer_id=p["buffer_id"], in_port=p["in_port"]))


H_CABLES = ((), ((2, 1),))   # no cable | a cable from port 2 back into port 1 (whose entry forwards to port 4: no loop possible)


def h_steps (frames, react_n, cable=()):
  """The step alphabet: every (delivery, port) x outer list x reaction x fault position that is distinct for the
  reference (reactions only where the step sends a packet-in, one fault per callout the unfaulted step makes)."""
  base = []
  for port in (1, 3, 4):
    base.append(("rx", port, None))
    for outer in H_OUTER: base.append(("po", port, outer))
  base.append(("rx", 2, None)); base.append(("po", 2, ("table",))); base.append(("po", 2, ("out2", "table", "out3")))
  reactions = [None] + [(i, how, rl) for i in (0, 1) for how in H_HOW for rl in H_RL]
  out = []
  for dl, port, outer in base:
    for reaction in reactions:
      m = RefSw(frames, cable=dict(cable))
      m.step((dl, port, outer, reaction, 0), react_n)
      if reaction is not None and not m.reacted: continue       # no packet-in: same as without a reaction
      for k in range(0, m.callouts + 1):
        out.append((dl, port, outer, reaction, k))
  return out


def h_reduced (steps):
  """Second steps of two-step histories (thorough tier): every unfaulted step without a reaction, and the steps rx(3),
  packet-out [table] with in_port 3 / 4 answered, with and without installation, by a packet-out [table] naming the buffer."""
  trig = (("rx", 3, None), ("po", 3, ("table",)), ("po", 4, ("table",)))
  return [s for s in steps if s[4] == 0 and (s[3] is None or (s[3][1] == "po-buf" and s[3][2] == ("table",) and s[:3] in trig))]


def _h_expect (model):
  e = Exp(PORTS0)
  for x in model.ev:
    if x[0] == "out": e.per_port[x[1]].append((x[2], x[3]))
    else: e.pins.append(x[1:])
  return e


def _h_deliver (sw, st, frame):
  dl, port, outer = st[:3]
  if dl == "rx": sw.rx(frame, port)
  else: sw.feed(W.packet_out(sw.nxid(), encode(outer), frame, in_port=port))


def _h_text (st):
  dl, port, outer, reaction, fault = st[:5]
  s = "frame %s %s" % (st[5] if len(st) > 5 else H_STEP_FRAME,
                       "received on port %d" % port if dl == "rx" else "in a packet-out [%s] with in_port %d" % (",".join(outer), port))
  if reaction:
    s += "; inside the send of the packet-in the controller answers with %s%s [%s]" % (
      "flow-mod ADD (in_port of the packet-in -> output:4) and " if reaction[0] else "",
      {"po-buf": "a packet-out naming the buffer", "fm-buf": "a flow-mod naming the buffer",
       "po-data": "a packet-out carrying the packet-in's data",
       "po-buf-later": "(but only after the switch has finished with the step's message) a packet-out naming the buffer"}[reaction[1]],
      ",".join(reaction[2]))
  if fault: s += "; callout %d of the step raises" % fault
  return s


def run_history (frames, steps, react_n=1, tail=True, trace=None, cable=()):
  """Returns (violations [(key, what)], summary, #calls).  Only the first step that differs is reported."""
  sw = HSw(dict(cable)); obs = sw.obs
  model = RefSw(frames, cable=dict(cable))
  shared = RefSw(frames, shared=True, cable=dict(cable))
  for port, labels in H_ENTRIES:
    sw.feed(W.flow_mod(sw.nxid(), W.match_fields(in_port=port), W.OFPFC_ADD, encode(labels)))
  bad = []
  summary = []
  if obs.errors or obs.raised:
    return [("%s:history:setup" % PID, "installing the table failed: %r %r" % ([(e["etype"], e["code"]) for e in obs.errors], obs.raised))], None, obs.calls
  allsteps = list(steps) + (list(H_TAIL) if tail else [])
  phase = "plain"           # what preceded the first differing step
  out_all = []
  for i, st in enumerate(allsteps):
    frame = model.step(st, react_n)
    shared.step(st, react_n)
    sw.arm(st[3], st[4], react_n)
    obs.out = []; obs.pins = []; obs.errors = []; obs.raised = None; obs.garbled = False
    _h_deliver(sw, st, frame)
    sw.send_later()
    sw.arm(None, 0, 0)
    out_all += obs.out
    summary.append((tuple((p, digest(f)) for p, f in obs.out), tuple((p["reason"], p["in_port"]) for p in obs.pins),
                    model.faulted))
    if trace is not None:
      trace.append("step %d: %s\n   expected %s%r packet-ins %r\n   observed %r packet-ins %r%s"
                   % (i + 1, _h_text(st), "(not asserted: faulted) " if model.faulted else "",
                      [(x[1], x[2].hex()) for x in model.ev if x[0] == "out"], [(x[1], x[2], len(x[3])) for x in model.ev if x[0] == "pin"],
                      [(p, f.hex()) for p, f in obs.out], [(p["reason"], p["in_port"], p["total_len"]) for p in obs.pins],
                      " raised %r" % (obs.raised,) if obs.raised is not None else ""))
    if model.faulted:
      phase = "after-fault"
      continue
    nested = bool(st[3]) and model.reacted
    ctx = "nested" if nested else phase
    where = "%sstep %d of %d (%s)%s" % ("".join("[every frame emitted on port %d is received on port %d at once] " % c for c in cable),
                                        i + 1, len(allsteps), _h_text(st),
                                        "" if i == 0 else ", after: " + " | ".join(_h_text(s) for s in allsteps[:i]))
    if obs.raised is not None:
      bad.append(("%s:history:raises:%s:%s" % (PID, site_of(obs.raised), ctx), "%s: %s: %s" % (where, type(obs.raised).__name__, obs.raised)))
      break
    step = Obs(); step.out = obs.out; step.pins = obs.pins
    recs = compare(_h_expect(model), step)
    if recs and not (obs.garbled or obs.errors) and not compare(_h_expect(shared), step):
      # exactly what a switch does whose table-miss buffer IS the packet the resubmitting action list works on
      bad.append(("%s:history:table-miss-buffer-shares-packet" % PID,
                  "%s: %s (the buffer of the table miss and the packet of the action list that resubmitted it are one object: "
                  "rewrites made on one side appear on the other)" % (where, recs[0]["what"])))
      break
    if obs.garbled: recs.append(dict(clause="wire", what="switch wrote bytes that do not frame as OpenFlow messages"))
    if obs.errors:
      recs.append(dict(clause="error-reply", code="%d.%d" % (obs.errors[0]["etype"], obs.errors[0]["code"]),
                       what="switch answered with OFPT_ERROR type %d code %d" % (obs.errors[0]["etype"], obs.errors[0]["code"])))
    for r in recs:
      c = r["clause"]
      if c == "ports":
        labs = "table" if "table" in r["labels"] else (",".join(r["labels"]) or "none")
        k = "ports:%s:%s:%s" % (labs, r["dir"], "ingress-port" if r["port"] == st[1] else "port")
      elif c == "bytes": k = "bytes:%s" % r["layers"]
      elif c == "packet-in": k = "packet-in:%s" % r["sub"]
      elif c == "error-reply": k = "error-reply:%s" % r["code"]
      else: k = c
      bad.append(("%s:history:%s:%s" % (PID, k, ctx), "%s: %s" % (where, r["what"])))
    if bad: break
    if nested and phase == "plain": phase = "after-nested"
  if not bad:
    sw.port_stats()
    if obs.raised is not None:
      bad.append(("%s:history:counters:raises:%s" % (PID, site_of(obs.raised)), "port-stats request after the history raised %r" % (obs.raised,)))
    elif not model.badarg:
      obs.out = out_all
      e = Exp(PORTS0)
      if not model.any_fault:
        # receptions: frames from the wire (and from the cable); a packet-out, a buffer release, an OFPP_TABLE resubmission is none
        e.rx = dict((p, set([tuple(model.rxc.get(p, (0, 0)))])) for p in PORTS0)
        e.resub = dict((p, tuple(c)) for p, c in model.resubc.items())
      for r in check_counters(e, obs):
        if r["field"] == "rx:table-resubmission-counted": k = "%s:counters:%s" % (PID, r["field"])      # one key with section A
        else: k = "%s:history:counters:%s:%s" % (PID, r["field"], phase)
        bad.append((k, "after %s: %s" % (" | ".join(_h_text(s) for s in allsteps), r["what"])))
  return bad, tuple(summary), obs.calls


def _work_history (item):
  from mc.env import boot
  boot()
  react_n, cable, histories = item
  frames = dict(corpus())
  rep = Report(PID, "model_checking")
  for h in histories:
    bad, summary, calls = run_history(frames, h, react_n, cable=cable)
    rep.evaluations += 1; rep.transitions += calls
    rep.outcome(("hist", summary, tuple(sorted(k for k, w in bad))))
    for k, what in bad:
      rep.violation(k, what, dict(kind="history", steps=[list(s) for s in h], react_n=react_n, cable=[list(c) for c in cable]))
    if not bad and rep.evaluations % 400 == 11:
      rep.sample(dict(cable=list(cable), history=[_h_text(s) for s in h], then="%d probe steps" % len(H_TAIL),
                      emitted_ports_per_step=[[p for p, d in s[0]] for s in summary], packet_ins_per_step=[len(s[1]) for s in summary]))
  rep.state_count = rep.evaluations
  return rep


# ---------------------------------------------------------------------------------------------
# G. port numbers
# ---------------------------------------------------------------------------------------------
# Ports 1..4 do not show whether a port number is handled as the 16-bit quantity it is.  Here the switch has two more
# ports, numbered a and b out of PN_NUMBERS (every byte / sign boundary up to OFPP_MAX - 1), added through add_port; the
# frame enters on a.  Four more cases have a port numbered OFPP_MAX itself.
PN_NUMBERS = (0x7f, 0x80, 0xff, 0x100, 0x101, 0x7fff, 0x8000, 0xfe00, R.OFPP_MAX - 1)
PN_KINDS = ("out-b", "enq-b", "out-a", "out2", "inport", "flood", "all", "ctl")


def run_portnum_case (frames, a, b):
  sw = Sw(); obs = sw.obs
  bad = []
  # OFPP_MAX (0xff00) is "the maximum number of physical switch ports" and ports are numbered from 1: it is the highest
  # number a physical port can have (the virtual ports start at 0xfff8).  A case that involves it reports every difference
  # under one key of its own; its expectation is that of the same case with the port numbered 0xfe01.
  top = R.OFPP_MAX in (a, b)
  ren = lambda n: 0xfe01 if n == R.OFPP_MAX else n          # (a number no case uses)
  def v (k, what):
    bad.append(("%s:portnum:%s" % (PID, "ofpp-max-is-a-physical-port" if top and not k.startswith("features") else k),
                "switch with ports 1-4, %#x, %#x; ingress port %#x: %s" % (a, b, a, what)))
  for n in (a, b):
    obs.calls += 1
    try: sw.st.sw.add_port(sw.st.sw.generate_port(n, name="p%x" % n))     # (the default name of a port >= 1000 does not fit the field)
    except Exception as e: obs.raised = e
  sw.collect()
  ports = sw.features() if obs.raised is None else None
  if ports is None or sorted(ports) != sorted(list(PORTS0) + [a, b]):
    v("features", "features reply lists ports %r (%r)" % (ports and sorted(ports), obs.raised)); return bad, None, obs.calls
  cfgs = dict(PORTS0); cfgs[a] = 0; cfgs[b] = 0
  frame = frames["udp"]
  summary = []
  for phase in ("plain", "b-no-flood", "b-no-fwd"):
    if phase != "plain":
      bit = R.PC_NO_FLOOD if phase == "b-no-flood" else R.PC_NO_FWD
      sw.feed(W.port_mod(sw.nxid(), b, ports[b]["hw_addr"], bit, R.PC_NO_FLOOD | R.PC_NO_FWD))
      cfgs[b] = bit
      if obs.errors or obs.raised is not None:
        v("port-mod-refused", "port-mod naming port %#x: %r %r" % (b, [(e["etype"], e["code"]) for e in obs.errors], obs.raised)); return bad, None, obs.calls
    for mode in ("pout", "flow"):
      for kind in PN_KINDS:
        label = {"out-b": "out=%#x" % b, "enq-b": "enq=%#x" % b, "out-a": "out=%#x" % a}.get(kind, kind)
        o0, p0 = len(obs.out), len(obs.pins)
        if mode == "pout":
          sw.feed(W.packet_out(sw.nxid(), encode((label,)), frame, in_port=a))
        else:
          sw.feed(W.flow_mod(sw.nxid(), W.match_fields(in_port=a), W.OFPFC_ADD, encode((label,))))
          sw.rx(frame, a)
        if obs.raised is not None or obs.errors:
          v("raises:%s" % site_of(obs.raised) if obs.raised is not None else "error-reply:%d.%d" % (obs.errors[0]["etype"], obs.errors[0]["code"]),
            "[%s] as %s, %s: %r %r" % (kind, mode, phase, obs.raised, [(e["etype"], e["code"]) for e in obs.errors]))
          return bad, None, obs.calls
        step = Obs(); step.out = obs.out[o0:]; step.pins = obs.pins[p0:]
        summary.append((tuple((q, digest(f)) for q, f in step.out), tuple((q["reason"], q["in_port"]) for q in step.pins)))
        exp = expect_actions(frame, (label,), a, cfgs, table=False)
        if top:
          label2 = {"out-b": "out=%#x" % ren(b), "enq-b": "enq=%#x" % ren(b), "out-a": "out=%#x" % ren(a)}.get(kind, kind)
          x = expect_actions(frame, (label2,), ren(a), dict((ren(q), c) for q, c in cfgs.items()), table=False)
          exp.per_port = dict((q, x.per_port[ren(q)]) for q in cfgs)
          exp.pins = [(t[0], a) + tuple(t[2:]) for t in x.pins]
        for r in compare(exp, step):
          c = r["clause"]
          if c == "ports":
            who = "port-a" if r["port"] == a else "port-b" if r["port"] == b else "low-port"
            v("ports:%s:%s:%s" % (kind, r["dir"], who), "[%s] as %s, %s: %s" % (kind, mode, phase, r["what"]))
          elif c == "bytes": v("bytes:%s" % r["layers"], "[%s] as %s, %s: %s" % (kind, mode, phase, r["what"]))
          else: v("packet-in:%s" % r["sub"], "[%s] as %s, %s: %s" % (kind, mode, phase, r["what"]))
        if bad: return bad, None, obs.calls
  # counters, per port and for all ports
  nrx = 3 * len(PN_KINDS)
  e = Exp(cfgs); e.rx = {a: set([(nrx, nrx * len(frame))])}
  sw.port_stats()
  if obs.raised is not None: v("counters:raises:%s" % site_of(obs.raised), "port-stats request raised %r" % (obs.raised,))
  else:
    for r in check_counters(e, obs): v("counters:%s" % r["field"], r["what"])
    for n in (a, b):
      rr = [d for d in sw.feed(W.stats_request(sw.nxid(), W.OFPST_PORT, W.port_stats_body(n))) if d["type"] == W.STATS_REPLY]
      got = [q["port_no"] for q in rr[0]["ports"]] if len(rr) == 1 and rr[0].get("wellformed") else None
      if got != [n] or rr[0]["ports"][0] != (obs.stats or {}).get(n):
        v("counters:single-port-request", "port-stats request naming port %#x answered with entries for %r / other numbers than the request for all ports" % (n, got))
  return bad, tuple(summary), obs.calls


def _work_portnum (item):
  from mc.env import boot
  boot()
  frames = dict(corpus())
  rep = Report(PID, "model_checking")
  for a, b in item[0]:
    bad, summary, calls = run_portnum_case(frames, a, b)
    rep.evaluations += 1; rep.transitions += calls
    rep.outcome(("pn", summary, tuple(sorted(k for k, w in bad))))
    for k, what in bad:
      rep.violation(k, what, dict(kind="portnum", a=a, b=b))
    if not bad and (a, b) == (PN_NUMBERS[0], PN_NUMBERS[-1]):
      rep.sample(dict(extra_ports=[a, b], ingress=a, probes=list(PN_KINDS), phases=["plain", "b-no-flood", "b-no-fwd"],
                      emitted_ports_per_probe=[[q for q, d in x[0]] for x in summary]))
  rep.state_count = rep.evaluations
  return rep


# ---------------------------------------------------------------------------------------------
def _work (item):
  if item[0] == "portnum": return _work_portnum(item[1:])
  if item[0] == "history": return _work_history(item[1:])
  if item[0] == "sweep": return _work_sweep(item[1:])
  if item[0] == "lifecycle": return _work_lifecycle(item[1:])
  if item[0] == "ports": return _work_ports(item[1:])
  if item[0] == "portmod": return _work_portmod(item[1:])
  return _work_actions(item)


def run (cfg):
  from mc.env import boot
  boot()
  rep = Report(PID, "model_checking")
  L_main = cfg.pick(3, 4)
  L_extra = cfg.pick(2, 3)
  L_none = cfg.pick(2, 3)
  only = cfg.only
  items = []
  firsts = [None] + [l for l, a in ALPHA]
  if only in (None, "actions"):
    for f in MAIN_FRAMES:
      for mode in ("flow", "pout"):
        for first in firsts: items.append(("lists", f, mode, first, L_main))
      for first in firsts: items.append(("lists", f, "pout-none", first, L_none))
    for f in EXTRA_FRAMES:
      for mode in ("flow", "pout"):
        for first in firsts: items.append(("lists", f, mode, first, L_extra))
    for f in MAIN_FRAMES + EXTRA_FRAMES + WIDE_FRAMES:
      for mode in ("flow", "pout"):
        items.append(("long", f, mode, None, 0))
        items.append(("args", f, mode, None, 0))
    # buffered deliveries (lists with at least one output)
    for f in MAIN_FRAMES + EXTRA_FRAMES + WIDE_FRAMES:
      main = f in MAIN_FRAMES
      for first in (firsts[1:] if f not in WIDE_FRAMES else ()):
        items.append(("lists", f, "buf-ctl", first, L_main if (main or cfg.quick) else L_extra))
        for mode in ("buf-miss", "buf-ctl-fm", "buf-miss-fm", "buf-po", "buf-rwctl"):
          items.append(("lists", f, mode, first, L_none))
      for mode in sorted(BUF_MODES):
        items.append(("long", f, mode, None, 0))
        items.append(("args", f, mode, None, 0))
  allc, small = six_configs(), small_configs()
  if only in (None, "ports"):
    for i in allc:
      if cfg.quick:
        es = allc if i in small else small
      else:
        es = allc
      items.append(("ports", i, tuple(es)))
  if only in (None, "portmod"):
    for a in allc:
      items.append(("portmod", a, tuple(small if cfg.quick else allc)))
  L_life = cfg.pick(4, 5)
  L_traffic = cfg.pick(2, 3)
  n_life = 0
  if only in (None, "lifecycle"):
    hs = lifecycle_histories(L_life) + traffic_histories(L_traffic)
    n_life = len(hs)
    n = max(1, cfg.workers * 4)
    for i in range(n):
      if hs[i::n]: items.append(("lifecycle", tuple(hs[i::n])))
  if only in (None, "sweeps"):
    items += sweep_items(cfg.quick)
  if only in (None, "portnum"):
    pairs = [(a, b) for a in PN_NUMBERS for b in PN_NUMBERS if a != b]
    pairs += [(R.OFPP_MAX, n) for n in (0x7f, R.OFPP_MAX - 1)] + [(n, R.OFPP_MAX) for n in (0x7f, R.OFPP_MAX - 1)]
    for i in range(0, len(pairs), 12): items.append(("portnum", tuple(pairs[i:i + 12])))
  react_n = cfg.pick(1, 2)
  n_hist = n_hsteps = 0
  if only in (None, "history"):
    fr = dict(corpus())
    for cable in H_CABLES:
      hsteps = h_steps(fr, react_n, cable)
      n_hsteps += len(hsteps)
      hs = [(s,) for s in hsteps]
      if not cfg.quick and not cable:
        red = h_reduced(hsteps)
        hs += [(a, b) for a in hsteps for b in red]
      n_hist += len(hs)
      per = 150
      for i in range(0, len(hs), per):
        items.append(("history", react_n, cable, tuple(hs[i:i + per])))
  # big items first so the pool drains evenly
  items.sort(key=lambda it: (0 if it[0] == "sweep" else 1 if (it[0] == "lists" and it[3] is not None) or it[0] == "history" else 2, repr(it)))
  n_alpha = len(ALPHA)
  BUF_RULE = ("flow-created buffer + packet-out length <=%d for %s frames; miss-created buffer, flow-mod release, "
              "packet-out-created and rewrite-before-buffer variants length <=%d, all frames"
              % (L_main, "all" if cfg.quick else "the main (<=%d extra)" % L_extra, L_none))
  rep.rule = ("A: every action list of length <=%d over %d actions (%s) x frames %s, delivered as a flow entry hit by the frame on "
              "port 1 (TABLE excluded: only valid in packet-out) and as a packet-out with in_port 1; length <=%d with in_port NONE; "
              "length <=%d for frames %s; %d boundary-argument lists and %d fixed length-5/6 lists per frame and delivery, these "
              "also for the frames %s (all deliveries, buffered ones included); "
              "buffered deliveries (lists with >=1 output; the frame first reaches the controller through a flow entry's "
              "output:CONTROLLER / a table miss / a packet-out's output:CONTROLLER / a flow [set_vlan_vid, output:CONTROLLER, "
              "set_dl_dst], the list then arrives in a packet-out or flow-mod naming the buffer id): %s. "
              "B: ingress config x egress config over all 2^6 combinations of PORT_DOWN/NO_RECV/NO_RECV_STP/NO_FLOOD/NO_FWD/NO_PACKET_IN "
              "(%s) set by port-mod x output kind %s x delivery x (in sequence: frames to unicast, [LLC BPDU], broadcast, "
              "01:80:c2:00:00:00, :01, :0e, :0f, :10 - only :00 is 802.1D). "
              "C: port-mod transitions a->b (%s) with full and changed-bits masks, read back via features reply. "
              "D: every history of <=%d operations on port 2 over {port-mod set/clear PORT_DOWN, NO_FWD, NO_FLOOD; delete_port; add_port of "
              "the returned port object} (port-mods on the removed port must be refused), then features reply and delivery probes "
              "output:2 / enqueue:2 / FLOOD / ALL / IN_PORT(frame entering on 2), each as packet-out and as flow entry, and a frame from "
              "the wire on port 2 hitting a flow entry -> output:3, then port stats; and every history of <=%d operations over {port-mod "
              "set/clear one of PORT_DOWN, NO_FWD, NO_FLOOD, NO_RECV; port-mod setting these four bits at once to each of the 16 values; "
              "delete_port; add_port} with that probe set run (and asserted against the configuration of the moment) or not in front of "
              "each operation (%d histories in all). "
              "E: value sweeps, every value of each through one switch per chunk of %d (%d for lengths), every emission compared, "
              "port counters read back per chunk, failing values re-run alone on a fresh switch: %s. "
              "F: histories on one switch whose table is in_port 1 -> [output:4], 2 -> [set_vlan_pcp 9, output:3] (cannot be serialised), "
              "4 -> [output:2, output:CONTROLLER, output:3], 3 -> no entry: %s of steps (delivery {frame from the wire, packet-out carrying "
              "the frame} x ingress port {1,3,4} x outer list {%s}, and three deliveries through the unserialisable entry) x reaction of the "
              "controller to the first %d packet-in(s) of the step {none} + {flow-mod ADD (packet-in's in_port -> output:4) first | not} x "
              "{packet-out naming the buffer, flow-mod naming the buffer, packet-out carrying the packet-in's data: all three delivered from "
              "INSIDE the connection's send of the packet-in (re-entrantly); packet-out naming the buffer after the step's message has been "
              "processed} x list {%s} x fault {none, or the k-th callout of the step - DpPacketOut event or packet-in send, counted together - "
              "raises, for every k up to the number of callouts the step makes} (%d steps), each followed by %d probe steps (plain and nested "
              "TABLE resubmissions, frames from the wire, other frames) and a port-stats request; the whole also with a cable that feeds every "
              "frame emitted on port 2 back into port 1 from inside the DpPacketOut event; %d histories. "
              "G: a switch with ports 1-4 and two more numbered a, b (every ordered pair out of %s, and OFPP_MAX with 0x7f / 0xfeff either "
              "way round; added by add_port), the frame "
              "entering on a: %s as packet-out and as flow entry, again after port-mod NO_FLOOD and after port-mod NO_FWD on b; port "
              "stats for all ports and for a, b alone. "
              "One fresh switch per case in A-D; cases are distinct as (frame, delivery, action list) / (configs, kind, delivery); "
              "distinct outcomes = distinct (case class, emitted (port, frame) sequence, packet-ins, verdict)"
              % (L_main, n_alpha, ",".join(l for l, a in ALPHA), ",".join(MAIN_FRAMES), L_none, L_extra, ",".join(EXTRA_FRAMES),
                 len(argument_lists("pout")), len(fixed_long_lists("pout")), ",".join(WIDE_FRAMES), BUF_RULE,
                 "pairs with at least one side in {none, one bit, all bits}" if cfg.quick else "full 64x64 product",
                 ",".join(PORT_KINDS), "64 x 8" if cfg.quick else "64 x 64", L_life, L_traffic, n_life, SWEEP_CHUNK, LEN_CHUNK,
                 "; ".join("%s = %s, %d values, %s [%s]" % (x[0], x[6], x[3], {"flow": "flow entry", "pout": "packet-out", "buf-miss": "buffer release"}[x[2]],
                                                              ",".join(l.split("=")[0] for l in x[5](1)))
                           for x in SWEEPS if x[1] == "q" or not cfg.quick),
                 "every single step" if cfg.quick else "every single step, and every pair (any step, then a step without fault out of a reduced set)",
                 " | ".join(",".join(o) for o in H_OUTER), react_n, " | ".join(",".join(o) for o in H_RL), n_hsteps, len(H_TAIL), n_hist,
                 ",".join("%#x" % n for n in PN_NUMBERS), ",".join(PN_KINDS)))
  rep.bound = dict(history_steps=cfg.pick(1, 2), history_step_alphabet=n_hsteps, histories=n_hist, reactions_per_step=react_n,
                   faults_per_step=1, list_length=L_main, list_length_extra_frames=L_extra, list_length_in_port_none=L_none, alphabet=n_alpha,
                   frames=len(MAIN_FRAMES) + len(EXTRA_FRAMES) + len(WIDE_FRAMES), ports=NPORTS, port_history_depth=L_life,
                   port_history_with_traffic_operations=L_traffic, port_histories=n_life,
                   sweeps=len([x for x in SWEEPS if x[1] == "q" or not cfg.quick]),
                   sweep_values=sum(x[3] for x in SWEEPS if x[1] == "q" or not cfg.quick))
  rep.assumptions = [
    "corpus frames carry valid lengths and checksums, present UDP checksums, zero ECN bits; set_nw_tos arguments have zero ECN bits",
    "enqueue on a switch without queues behaves as output to the named port (what the switch documents)",
    "OFPP_TABLE is exercised in packet-outs only, against one table flow without rewrites; a packet-out (and a resubmission to the "
    "table it causes) is not a frame received on the port it names as in_port",
    "an EtherType other than 0x8100 is not a VLAN tag and one other than 0x0800 (directly or inside one 0x8100 tag) is not IPv4, whatever "
    "the bytes after it look like (802.1ad / QinQ tag types included: OpenFlow 1.0 has one tag type); an ICMP message is payload of its "
    "IP datagram, the datagram an error message quotes included",
    "relative order of emissions is compared per port, not across ports",
    "a port's config bits belong to its ofp_phy_port description and survive delete_port/add_port of that object; whether a removed "
    "port keeps a statistics entry and whether counters restart on re-addition is not asserted (either total is accepted); a frame "
    "arriving from the wire on a PORT_DOWN port may be processed or not",
    "a buffered frame is released with the ingress port it arrived on; the packet-out releasing it names that port as in_port",
    "IP fragments are combined with link-layer rewrites and outputs only",
    "port numbers 1..OFPP_MAX (0xff00, 'maximum number of physical switch ports'; the virtual ports start at 0xfff8) are physical ports; "
    "the four cases with a port numbered OFPP_MAX itself report under one key of their own (C12:portnum:ofpp-max-is-a-physical-port)",
    "unspecified and therefore not asserted: acceptance of frames arriving on a PORT_DOWN port; whether NO_PACKET_IN silences output:CONTROLLER; "
    "whether frames refused by NO_RECV/NO_RECV_STP count as received",
    "IP/TCP checksum 0x0000 and 0xffff are treated as equal (did not occur)",
    "histories (F): a message from the controller / a frame from the wire is one unit of processing; an exception raised by a callout ends "
    "the unit it occurs in (the controller's answer, when it occurs inside one) and nothing else; what a step emits in which a fault occurred "
    "is not asserted (nor, after an action list that cannot be serialised, the tx counters), every other step and the tx counters are; "
    "rx counters (frames from the wire and from the cable; packet-outs, buffer releases and OFPP_TABLE resubmissions are no receptions) "
    "are asserted for histories without fault; the raising DpPacketOut listener runs after the recording one and the packet-in is "
    "written before its send raises, so the fault never hides a frame or message from the observer; table entries reached through "
    "OFPP_TABLE carry no rewrites (whether rewrites made by such an entry persist in the resubmitting list is not specified); a buffer "
    "holds the frame its packet-in reported, whatever the action list that caused the packet-in does afterwards",
    "value sweeps (E): the switch is not renewed between the values of a chunk (it is after a failing value); every swept frame has "
    "valid lengths and checksums built by the reference; one swept 16-bit word per checksummed region stands for every word of it "
    "(the sum is commutative) - the thorough tier moves the word and changes the number of carries the other words provide; "
    "frames whose set_nw_tos is swept have zero ECN bits; VLAN ids are swept over 0..4095, DSCP over its 64 values",
  ]
  for r in pmap(_work, items, cfg.workers, seed=cfg.seed):
    rep.merge(r)
  return rep


def explains (known_key, key):
  import fnmatch
  return known_key == key or fnmatch.fnmatchcase(key, known_key)


def replay (cfg, data):
  from mc.env import boot
  boot()
  frames = dict(corpus())
  k = data.get("kind")
  FR.update(frames)
  if k == "actions" and "frame_hex" in data:
    frames[data["frame"]] = bytes.fromhex(data["frame_hex"])
  if k == "sweep":
    bad3 = run_sweep_chunk(data["sweep"], data["lo"], data["hi"])
    x = SWEEP[data["sweep"]]
    lines = ["sweep %s (%s): values %#x..%#x, one after the other through one switch, delivered as %s with actions [%s]"
             % (x[0], x[6], data["lo"], data["hi"] - 1, x[2], ",".join(x[5](data["lo"]))),
             "first frame %s" % x[4](data["lo"]).hex(), "last frame %s" % x[4](data["hi"] - 1).hex()]
    bad = [(key, what) for key, what, d in bad3]
  elif k == "actions":
    labels = tuple(data["actions"])
    bad, summary, calls = run_actions_case(frames, data["frame"], data["mode"], labels)
    frame = frames[data["frame"]]
    in_port = R.OFPP_NONE if data["mode"] == "pout-none" else IN
    if data["mode"] in BUF_MODES: exp = buffered_expectation(frame, data["mode"], labels)[0]
    else: exp = expect_actions(frame, labels, in_port, PORTS0)
    lines = ["frame %s = %s" % (data["frame"], frame.hex()),
             "actions [%s] delivered as %s%s" % (",".join(labels), data["mode"],
                " (buffer created by %s, released by %s naming the buffer id; keys below are the plain ones, the run adds "
                "'buffered' when a packet-out carrying the frame itself is handled correctly)" % BUF_MODES[data["mode"]]
                if data["mode"] in BUF_MODES else ""),
             "action bytes = %s" % encode(labels).hex(),
             "expected emissions: %r" % dict((p, [f.hex() for f, l in v]) for p, v in exp.per_port.items() if v),
             "expected packet-ins (reason, in_port, frame, max_len): %r" % [(r, i, f.hex(), m) for r, i, f, m, l in exp.pins]]
    sw = LAST_OBS[0]
    if sw is not None:
      lines.append("observed emissions: %r" % [(p, f.hex()) for p, f in sw.out])
      lines.append("observed packet-ins (reason, in_port, total_len, buffer_id, data): %r"
                   % [(p["reason"], p["in_port"], p["total_len"], p["buffer_id"], p["data"].hex()) for p in sw.pins])
      lines.append("observed port counters: %r" % (sw.stats and dict((p, (s["rx_packets"], s["rx_bytes"], s["tx_packets"], s["tx_bytes"]))
                                                                      for p, s in sorted(sw.stats.items())),))
  elif k == "ports":
    icfg, ecfg = from_names(data["ingress"]), from_names(data["egress"])
    bad, summary, calls = run_port_case(frames, icfg, ecfg, data["out"], data["mode"])
    lines = ["ingress port %d config %s, egress port %d config %s, output kind %s, delivered as %s"
             % (IN, flags(icfg), EG, flags(ecfg), data["out"], data["mode"]),
             "frames sent in sequence: %r" % [n for n, c, f in port_frames(frames)],
             "observed per frame: (emitted (port, digest), packet-in (reason, in_port)): %r" % (summary,)]
  elif k == "lifecycle":
    bad, summary, calls = run_lifecycle_case(frames, tuple(data["history"]))
    lines = ["operations on port %d: %r (+x/-x = port-mod setting/clearing a config bit, =h = port-mod setting PORT_DOWN|NO_RECV|NO_FLOOD|NO_FWD "
             "(mask %#x) to h, del = delete_port, add = add_port of the returned object, probe = the probe set at that point)"
             % (EG, data["history"], LC_MASK4),
             "probes: %r as packet-out, then as flow entry (from2: flow entry only, frame from the wire on port %d -> output:3)" % (LC_KINDS, EG),
             "(port present, config bits per reference, ports that emitted per probe, probe sets in order): %r" % (summary,)]
  elif k == "history":
    def tup (st):
      st = list(st)
      if st[2] is not None: st[2] = tuple(st[2])
      if st[3] is not None: st[3] = (st[3][0], st[3][1], tuple(st[3][2]))
      return tuple(st)
    steps = tuple(tup(st) for st in data["steps"])
    lines = ["table: %s; in_port 3 -> no entry" % "; ".join("in_port %d -> [%s]" % (p, ",".join(l)) for p, l in H_ENTRIES),
             "history of %d step(s) on one switch, then %d probe steps; the controller answers the first %d packet-in(s) of a step "
             "that has a reaction" % (len(steps), len(H_TAIL), data.get("react_n", 1))]
    cable = tuple(tuple(c) for c in data.get("cable", ()))
    for c in cable: lines.append("a cable: every frame emitted on port %d is received on port %d at once" % c)
    bad, summary, calls = run_history(frames, steps, data.get("react_n", 1), trace=lines, cable=cable)
  elif k == "portnum":
    bad, summary, calls = run_portnum_case(frames, data["a"], data["b"])
    lines = ["switch with ports 1-4 and (add_port) %#x, %#x; frame udp enters on %#x; probes %r as packet-out, then as flow entry; then again "
             "after port-mod NO_FLOOD on %#x and after port-mod NO_FWD on it" % (data["a"], data["b"], data["a"], PN_KINDS, data["b"]),
             "(emitted (port, digest), packet-in (reason, in_port)) per probe: %r" % (summary,)]
  elif k == "portmod":
    a, b = from_names(data["a"]), from_names(data["b"])
    bad, summary, calls = run_portmod_case(a, b, data["full"])
    lines = ["port-mod %s -> %s full mask %s; (config, state, #errors) read back: %r" % (flags(a), flags(b), data["full"], summary)]
  else:
    raise ValueError("unknown replay kind %r" % (k,))
  for key, what in bad: lines.append("%s: %s" % (key, what))
  return bool(bad), "\n".join(lines)
