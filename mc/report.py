"""Result accumulation shared by all property harnesses.

A harness returns a Report.  Counts are *measured* while exploring:
  evaluations  - executions / inputs run against the implementation
  states       - distinct canonical states (or distinct executions where no state
                 matching is used)
  transitions  - calls into the implementation that moved the system (operations,
                 deliveries, reads, thread steps ...)
  outcomes     - set of digests of observed outcomes; len() is distinct_nontrivial
Violations are keyed by a *stable key* (property + oracle clause + failing site/shape)
so that known findings can be matched exactly and anything else still fails.
"""
import hashlib, json, os, time


def digest(obj):
  """Short stable digest of a python value (repr based; callers pass canonical data)."""
  if not isinstance(obj, (bytes, bytearray)):
    obj = repr(obj).encode('utf8', 'backslashreplace')
  return hashlib.blake2b(obj, digest_size=8).hexdigest()


def jsonable(x, depth=0):
  if depth > 8: return repr(x)
  if isinstance(x, (str, int, float, bool)) or x is None: return x
  if isinstance(x, (bytes, bytearray)): return "hex:" + bytes(x).hex()
  if isinstance(x, dict):
    return {str(k): jsonable(v, depth+1) for k, v in x.items()}
  if isinstance(x, (list, tuple, set, frozenset)):
    xs = list(x)
    if isinstance(x, (set, frozenset)):
      xs = sorted(xs, key=repr)
    return [jsonable(v, depth+1) for v in xs]
  return repr(x)


class Report (object):
  MAX_SAMPLES = 6

  def __init__ (self, pid, level):
    self.pid = pid
    self.level = level
    self.evaluations = 0
    self.transitions = 0
    self.states = set()       # digests of canonical states (may stay empty)
    self.state_count = 0      # used when states are counted rather than hashed
    self.outcomes = set()
    self.samples = []
    self.violations = {}      # key -> dict(what=, replay=, count=)
    self.rule = ""
    self.bound = {}
    self.caps = []
    self.assumptions = []
    self.extra = {}
    self.exhaustive = True
    self.errors = []          # harness errors (never violations)

  # -- recording ----------------------------------------------------------
  def violation (self, key, what, replay):
    """Record a violation.  The first one seen per key is kept (exploration
    orders are smallest-first, so this is also the simplest)."""
    v = self.violations.get(key)
    if v is None:
      self.violations[key] = dict(what=what, replay=jsonable(replay), count=1)
    else:
      v['count'] += 1

  def outcome (self, obj):
    self.outcomes.add(digest(obj))

  def state (self, obj):
    d = digest(obj)
    if d in self.states: return False
    self.states.add(d)
    return True

  def sample (self, obj):
    if len(self.samples) < self.MAX_SAMPLES:
      self.samples.append(jsonable(obj))

  def error (self, msg):
    if len(self.errors) < 20: self.errors.append(msg)

  # -- merging (parallel workers) --------------------------------------------
  def merge (self, o):
    self.evaluations += o.evaluations
    self.transitions += o.transitions
    self.states |= o.states
    self.state_count += o.state_count
    self.outcomes |= o.outcomes
    for s in o.samples:
      if len(self.samples) < self.MAX_SAMPLES and s not in self.samples:
        self.samples.append(s)
    for k, v in o.violations.items():
      mine = self.violations.get(k)
      if mine is None:
        self.violations[k] = dict(v)
      else:
        mine['count'] += v['count']
        # keep the smaller replay (simplest counterexample)
        if len(json.dumps(v['replay'])) < len(json.dumps(mine['replay'])):
          mine['replay'] = v['replay']; mine['what'] = v['what']
    for c in o.caps:
      if c not in self.caps: self.caps.append(c)
    for e in o.errors: self.error(e)
    for k, v in o.extra.items():
      if isinstance(v, int) and isinstance(self.extra.get(k, 0), int):
        self.extra[k] = self.extra.get(k, 0) + v
      else:
        self.extra.setdefault(k, v)
    self.exhaustive = self.exhaustive and o.exhaustive
    return self

  def fresh (self):
    r = Report(self.pid, self.level)
    return r

  @property
  def n_states (self):
    return len(self.states) + self.state_count


def write_evidence (path, rep, tier, seed, wall, n_new_violations, known_printed):
  cov = dict(
    evaluations = rep.evaluations,
    distinct_nontrivial = len(rep.outcomes),
    rule = rep.rule,
    samples = rep.samples,
    states = max(rep.n_states, 0),
    transitions = rep.transitions,
    traces_validated_against_impl = rep.evaluations,
    exhaustive = bool(rep.exhaustive and not rep.caps),
    bound = jsonable(rep.bound),
    caps_hit = rep.caps,
    known_findings_reproduced = known_printed,
  )
  for k, v in rep.extra.items():
    cov.setdefault(k, jsonable(v))
  ev = dict(
    property_id = rep.pid,
    tier = tier,
    seed = seed,
    level = rep.level,
    coverage = cov,
    assumptions = rep.assumptions,
    wall_s = round(wall, 3),
    violations = n_new_violations,
  )
  os.makedirs(os.path.dirname(path), exist_ok=True)
  tmp = path + ".tmp"
  with open(tmp, "w") as f:
    json.dump(ev, f, indent=1, sort_keys=True)
    f.write("\n")
  os.replace(tmp, path)
  return ev
