"""./check entry point: run one property harness, match findings, write evidence.

Exit status: 0 property held on everything explored (or only listed known findings);
             1 at least one violation not listed in known_findings.json
               (a line `VIOLATION property=<id> replay=<path>` is printed per key);
             2 harness error (never reported as a violation).
"""
import argparse, importlib, json, os, re, sys, time, traceback

HERE = os.path.dirname(os.path.dirname(os.path.abspath(__file__)))
KNOWN = os.path.join(HERE, "known_findings.json")


class Cfg (object):
  def __init__ (self, pid, tier, seed, workers, only=None):
    self.pid = pid
    self.tier = tier
    self.quick = tier == "quick"
    self.seed = seed
    self.workers = workers
    self.only = only          # optional sub-harness filter (debugging)
    self.pox_src = os.environ.get("POX_SRC", "/repo")

  def pick (self, quick, thorough):
    return quick if self.quick else thorough


def load_known (pid):
  try:
    with open(KNOWN) as f: data = json.load(f)
  except FileNotFoundError:
    return {}
  out = {}
  for e in data.get("findings", []):
    if e.get("property") == pid and e.get("status", "open") == "open":
      out[e["key"]] = e
  return out


def safe_name (key):
  return re.sub(r"[^A-Za-z0-9_.-]+", "_", key)[:150]


def main (argv=None):
  ap = argparse.ArgumentParser()
  ap.add_argument("pid")
  ap.add_argument("--tier", default=os.environ.get("VERIF_TIER") or "quick",
                  choices=["quick", "thorough"])
  ap.add_argument("--replay", default=None)
  ap.add_argument("--workers", type=int,
                  default=int(os.environ.get("VERIF_WORKERS", "0")) or (os.cpu_count() or 4))
  ap.add_argument("--only", default=None)
  ap.add_argument("--no-evidence", action="store_true")
  args = ap.parse_args(argv)
  pid = args.pid.upper()
  try: seed = int(os.environ.get("VERIF_SEED", "0") or 0)
  except ValueError: seed = 0

  src = os.environ.get("POX_SRC", "/repo")
  if not os.path.isdir(os.path.join(src, "pox")):
    print("harness error: no pox package under POX_SRC=%s" % src); return 2
  sys.path.insert(0, src)
  sys.dont_write_bytecode = True

  try:
    mod = importlib.import_module("mc.props." + pid.lower())
  except Exception:
    traceback.print_exc()
    print("harness error: cannot load harness for %s" % pid); return 2

  cfg = Cfg(pid, args.tier, seed, max(1, args.workers), args.only)

  if args.replay:
    with open(args.replay) as f: data = json.load(f)
    try:
      bad, text = mod.replay(cfg, data["replay"])
    except Exception:
      traceback.print_exc(); return 2
    print("REPLAY property=%s key=%s" % (pid, data.get("key")))
    print(text)
    print("replay verdict: %s" % ("violation reproduced" if bad else "no violation"))
    return 1 if bad else 0

  t0 = time.time()
  try:
    rep = mod.run(cfg)
  except Exception:
    traceback.print_exc()
    print("harness error: %s raised" % pid); return 2
  wall = time.time() - t0

  known = load_known(pid)
  new_keys, known_printed = [], []
  rdir = os.path.join(HERE, "replays", pid)
  explains = getattr(mod, "explains", lambda kk, k: kk == k)
  seen_known = {}
  for key in sorted(rep.violations):
    v = rep.violations[key]
    kk = key if key in known else next((x for x in sorted(known) if explains(x, key)), None)
    if kk is not None:
      seen_known[kk] = seen_known.get(kk, 0) + v["count"]
      continue
    os.makedirs(rdir, exist_ok=True)
    path = os.path.join(rdir, safe_name(key) + ".json")
    with open(path, "w") as f:
      json.dump(dict(property=pid, key=key, what=v["what"], count=v["count"],
                     tier=args.tier, seed=seed, replay=v["replay"]), f, indent=1)
      f.write("\n")
    new_keys.append(key)
    print("  violated: %s (x%d): %s" % (key, v["count"], v["what"]))
    print("VIOLATION property=%s replay=%s" % (pid, path))
  for kk in sorted(seen_known):
    known_printed.append(kk)
    print("KNOWN-FINDING: property=%s %s [%s] (x%d)" % (pid, known[kk].get("what", ""), kk, seen_known[kk]))
  for key in sorted(known):
    if key not in known_printed and (args.tier in known[key].get("tiers", [args.tier])):
      # listed but not seen in this run: say so, do not fail (it may have been fixed
      # by an edit to the tree, which is fine)
      print("note: listed finding not reproduced in this run: %s" % key)

  status = 1 if new_keys else 0
  if rep.errors:
    for e in rep.errors: print("harness error: " + e)
    status = 2 if not new_keys else status
  if len(rep.outcomes) < 2 and not rep.errors:
    print("harness error: vacuous exploration (distinct outcomes=%d)" % len(rep.outcomes))
    status = 2 if status == 0 else status

  if not rep.samples and not rep.errors:
    print("harness error: no sample cases recorded"); status = 2 if status == 0 else status
  if not args.no_evidence and args.only is None:
    ev = os.path.join(HERE, "evidence", pid + ".json")
    from mc.report import write_evidence
    write_evidence(ev, rep, args.tier, seed, wall, len(new_keys), known_printed)
  print("%s tier=%s seed=%d evaluations=%d states=%d transitions=%d distinct_outcomes=%d "
        "violation_keys=%d known=%d caps=%s wall=%.1fs"
        % (pid, args.tier, seed, rep.evaluations, rep.n_states, rep.transitions,
           len(rep.outcomes), len(new_keys), len(known_printed), rep.caps or "none", wall))
  return status


if __name__ == "__main__":
  sys.exit(main())
